#!/bin/sh
# Offline setup: verify the tools the checks need and parse every specification.  Nothing is fetched.
set -e
cd "$(dirname "$0")"
mkdir -p build evidence replays
command -v java >/dev/null || { echo "java missing"; exit 1; }
test -f /opt/veriftools/tla/tla2tools.jar || { echo "tla2tools.jar missing"; exit 1; }
/venv/bin/python -c "import kafe2, numpy, scipy, iminuit; import os; assert os.path.realpath(kafe2.__file__).startswith('/repo/'), kafe2.__file__"
cd spec
for f in *.tla; do
  java -cp /opt/veriftools/tla/tla2tools.jar:/opt/veriftools/tla/CommunityModules-deps.jar tla2sany.SANY "$f" > ../build/sany.out 2>&1 \
    && ! grep -q "Semantic errors\|Parse Error\|Could not parse\|\*\*\* Errors" ../build/sany.out \
    || { echo "SANY failed on $f"; cat ../build/sany.out; exit 1; }
done
cd ..
echo "setup ok"
