----------------------------- MODULE Minimizer -----------------------------
(***************************************************************************)
(* The two minimiser adapters and NexusFitter, layer L5 (C08; fixed /       *)
(* limited bookkeeping of C06).  kafe2/core/minimizers/*.py,                *)
(* kafe2/core/fitters/nexus_fitter.py.                                      *)
(*                                                                         *)
(* There are TWO copies of the parameter vector: the one the backend holds  *)
(* (bv) and the one in the Nexus parameter nodes (nv), which changes only   *)
(* when the cost function is evaluated.  Values are abstract classes:       *)
(*   "I" initial / set by the user (not an optimum)                          *)
(*   "G" optimum for the user's fixed set                                   *)
(*   "O" displaced (a pin of a profile / contour / cost-cut search, or a    *)
(*       point the backend visited while computing derivatives)             *)
(*   "C" conditional optimum while some parameter is pinned at "O"          *)
(* Every post-fit query is the SEQUENCE of primitive steps the code         *)
(* performs; Faults removes single steps (no return to the minimum, no      *)
(* write-back on load_state, ...).                                          *)
(***************************************************************************)
EXTENDS Naturals, Sequences, FiniteSets, SequencesExt, TLC, Json

CONSTANTS Pars, Backend, MaxDepth, Off, Faults

VARIABLES bv, nv, fixU, fixT, limited, did, sfm, covAt, asymAt, fvalAt, saved, clean, act, obs

vars == <<bv, nv, fixU, fixT, limited, did, sfm, covAt, asymAt, fvalAt, saved, clean, act, obs>>

M0 == [bv |-> bv, nv |-> nv, fixT |-> fixT, did |-> did, covAt |-> covAt, asymAt |-> asymAt, fvalAt |-> fvalAt, saved |-> saved]

Free(m) == Pars \ (fixU \cup m.fixT)
AtMin(m) == \A p \in Pars \ fixU : m.bv[p] = "G"
Where(m) == IF AtMin(m) THEN "G" ELSE "O"

-----------------------------------------------------------------------------
(* primitive steps of the adapters *)
pInval(m) == [m EXCEPT !.covAt = "none", !.asymAt = "none", !.fvalAt = "none"]
pReset(m) == [pInval(m) EXCEPT !.did = FALSE]                                 \* MinimizerBase.reset
pSet(m, p, c) == pReset([m EXCEPT !.bv[p] = c])                               \* set(): backend copy only
pSetMin(m) == pReset([m EXCEPT !.bv = [p \in Pars |-> IF p \in fixU THEN m.bv[p] ELSE "G"]])   \* set_several(min_parameters)
pFix(m, p) == pInval([m EXCEPT !.fixT = @ \cup {p}])
pRelease(m, p) == pInval([m EXCEPT !.fixT = @ \ {p}])
pEval(m) == [m EXCEPT !.nv = m.bv, !.fvalAt = Where(m)]                       \* cost evaluated at the backend's values
pWander(m) == [m EXCEPT !.nv = [p \in Pars |-> IF p \in Free(m) THEN "O" ELSE m.nv[p]]]  \* derivative / scan evaluations
pMinimize(m) ==                                                               \* adapter.minimize()
  LET pinned == \E q \in m.fixT : m.bv[q] = "O"
      b2 == [p \in Pars |-> IF p \in Free(m) THEN (IF pinned THEN "C" ELSE "G") ELSE m.bv[p]]
      m2 == [pInval(m) EXCEPT !.bv = b2, !.did = TRUE]
  IN [m2 EXCEPT !.nv = b2, !.fvalAt = Where(m2)]
pSave(m) == [m EXCEPT !.saved = [bv |-> m.bv, fixT |-> m.fixT, did |-> m.did, covAt |-> m.covAt, asymAt |-> m.asymAt, fvalAt |-> m.fvalAt]]
pLoad(m) ==
  LET s == m.saved
      m2 == [m EXCEPT !.bv = s.bv, !.fixT = s.fixT, !.did = s.did, !.covAt = s.covAt, !.asymAt = s.asymAt, !.fvalAt = s.fvalAt]
  IN IF "load_no_writeback" \in Faults THEN m2 ELSE [m2 EXCEPT !.nv = s.bv]

(* one evaluation of the profiled cost with parameter p pinned away from the minimum (_get_cost_value / _find_cost_cut) *)
CostCut(m, p) ==
  LET m1 == pSet(pSetMin(m), p, "O")
      others == Pars \ (fixU \cup {p})
  IN IF others = {} THEN pEval(m1) ELSE pRelease(pMinimize(pFix(m1, p)), p)

-----------------------------------------------------------------------------
(* the queries, backend by backend *)
ReturnToMin(m, tag) == IF tag \in Faults THEN m ELSE pMinimize(m)

QCov(m) ==                  \* parameter_cov_mat / cor_mat / errors: HESSE with save/load (iminuit), numerical Hessian (scipy)
  IF m.covAt # "none" THEN m
  ELSE IF Backend = "iminuit"
       THEN LET m1 == pEval(pWander(pSave(m))) IN [pLoad(m1) EXCEPT !.covAt = Where(m)]
       ELSE LET m1 == pWander(m) IN [(IF "hessian_no_writeback" \in Faults THEN m1 ELSE pEval(m1)) EXCEPT !.covAt = Where(m)]

QAsym(m) ==                 \* asymmetric_parameter_errors
  IF m.asymAt # "none" THEN m
  ELSE IF Backend = "iminuit"
       THEN [ReturnToMin(pWander(m), "minos_no_return") EXCEPT !.asymAt = Where(m)]          \* MINOS, then minimize()
       ELSE LET m0 == pSave(QCov(pMinimize(m)))                                            \* generic: minimize, save, cut search per parameter
                step(mm, p) == IF p \in fixU THEN mm
                               ELSE LET c == CostCut(CostCut(mm, p), p)
                                    IN IF "asym_no_restore" \in Faults THEN c ELSE pLoad(c)
                m9 == FoldLeft(step, m0, SetToSeq(Pars))
            IN [m9 EXCEPT !.asymAt = Where(m0)]

QProfile(m, p, bounded) ==  \* profile of parameter p; `bounded`: low / high / cl given, so the bounds need cost-cut searches
  IF Backend = "iminuit"
  THEN LET m1 == IF bounded THEN CostCut(m, p) ELSE m
           m2 == ReturnToMin(m1, "profile_no_return_1")
           m3 == pWander(m2)                                                                \* MNPROFILE
       IN ReturnToMin(m3, "profile_no_return_2")
  ELSE LET m0 == pSave(m)
           m1 == IF bounded THEN CostCut(m0, p) ELSE m0
           m2 == pLoad(m1)
           m3 == pWander([m2 EXCEPT !.bv[p] = m2.bv[p]])                                    \* constrained minimisations on a grid
       IN IF "profile_no_restore" \in Faults THEN m3 ELSE pLoad(m3)

QContour(m) ==              \* two-parameter contour
  IF Backend = "iminuit" THEN ReturnToMin(pWander(m), "contour_no_return")                  \* MNCONTOUR, then minimize()
  ELSE pEval(pWander(m))                                                                    \* grid of constrained minimisations; state untouched

-----------------------------------------------------------------------------
Bounded(name) == TLCGet("level") <= MaxDepth /\ name \notin Off

Init ==
  /\ bv = [p \in Pars |-> "I"] /\ nv = [p \in Pars |-> "I"]
  /\ fixU = {} /\ fixT = {} /\ limited = {}
  /\ did = FALSE /\ sfm = FALSE
  /\ covAt = "none" /\ asymAt = "none" /\ fvalAt = "none"
  /\ saved = [bv |-> [p \in Pars |-> "I"], fixT |-> {}, did |-> FALSE, covAt |-> "none", asymAt |-> "none", fvalAt |-> "none"]
  /\ clean = FALSE            \* TRUE iff no mutator was issued since the last do_fit (the scope of C08)
  /\ act = [name |-> "Init", backend |-> Backend] /\ obs = [kind |-> "none"]

Apply(m) ==
  /\ bv' = m.bv /\ nv' = m.nv /\ fixT' = m.fixT /\ did' = m.did
  /\ covAt' = m.covAt /\ asymAt' = m.asymAt /\ fvalAt' = m.fvalAt /\ saved' = m.saved

(* user-level mutators (NexusFitter) *)
DoFit ==
  /\ Bounded("DoFit") /\ Pars \ fixU # {}
  /\ Apply(pMinimize(M0)) /\ sfm' = TRUE /\ clean' = TRUE
  /\ act' = [name |-> "DoFit"] /\ obs' = [kind |-> "none"]
  /\ UNCHANGED <<fixU, limited>>

SetPar(p) ==                \* set_fit_parameter_values: nexus node and backend, state no longer from the minimiser
  /\ Bounded("SetPar") /\ p \in Pars
  /\ LET m == pSet(M0, p, "I")
     IN Apply([m EXCEPT !.nv[p] = "I"])
  /\ sfm' = FALSE
  /\ clean' = FALSE
  /\ act' = [name |-> "SetPar", p |-> p] /\ obs' = [kind |-> "none"]
  /\ UNCHANGED <<fixU, limited>>

FixPar(p) ==
  /\ Bounded("FixPar") /\ p \in Pars \ fixU /\ Cardinality(fixU) + 1 < Cardinality(Pars)
  /\ fixU' = fixU \cup {p}
  /\ Apply(pInval(M0))                       \* fixed at its current value
  /\ clean' = FALSE
  /\ act' = [name |-> "FixPar", p |-> p] /\ obs' = [kind |-> "none"]
  /\ UNCHANGED <<limited, sfm>>

ReleasePar(p) ==
  /\ Bounded("ReleasePar") /\ p \in fixU
  /\ fixU' = fixU \ {p}
  \* if p was fixed away from its optimum, the other parameters are no longer at the optimum of the new free set
  /\ LET off == bv[p] # "G"
         b2 == [q \in Pars |-> IF off /\ q \notin fixU' /\ q # p /\ bv[q] = "G" THEN "I" ELSE bv[q]]
     IN Apply(pInval([M0 EXCEPT !.bv = b2, !.nv = [q \in Pars |-> IF nv[q] = bv[q] THEN b2[q] ELSE nv[q]]]))
  /\ clean' = FALSE
  /\ act' = [name |-> "ReleasePar", p |-> p] /\ obs' = [kind |-> "none"]
  /\ UNCHANGED <<limited, sfm>>

LimitPar(p) ==
  /\ Bounded("LimitPar") /\ p \in Pars \ limited
  /\ limited' = limited \cup {p}
  /\ Apply(IF Backend = "iminuit" THEN pReset(M0) ELSE M0)
  /\ clean' = FALSE
  /\ act' = [name |-> "LimitPar", p |-> p] /\ obs' = [kind |-> "none"]
  /\ UNCHANGED <<fixU, sfm>>

(* post-fit queries *)
Fitted == sfm /\ did
(* how the range of a profile is given: default, by confidence level (cost-cut search: _find_cost_cut) or by explicit low / high *)
(* values (one pinned evaluation each: _get_cost_value); both go through CostCut                                               *)
BoundKinds == {"no", "cl", "lowhigh"}
Query(q, p, bounded) ==
  /\ Bounded("Query") /\ Fitted /\ clean
  /\ q \in {"cov", "asym", "profile", "contour", "read"}
  /\ bounded \in BoundKinds
  /\ (q # "profile") => (p = CHOOSE x \in Pars : TRUE) /\ bounded = "no"
  /\ q = "profile" => p \notin fixU
  /\ q = "contour" => Cardinality(Pars \ fixU) >= 2
  /\ LET m == CASE q = "cov" -> QCov(M0)
                [] q = "asym" -> QAsym(M0)
                [] q = "profile" -> QProfile(M0, p, bounded # "no")
                [] q = "contour" -> QContour(M0)
                [] q = "read" -> M0                      \* report, result dict, plot, to_file: reads only
     IN Apply(m)
  /\ act' = [name |-> "Query", q |-> q, p |-> p, bounded |-> bounded] /\ obs' = [kind |-> "none"]
  /\ UNCHANGED <<fixU, limited, sfm, clean>>

Next ==
  \/ DoFit
  \/ \E p \in Pars : SetPar(p)
  \/ \E p \in Pars : FixPar(p)
  \/ \E p \in Pars : ReleasePar(p)
  \/ \E p \in Pars : LimitPar(p)
  \/ \E q \in {"cov", "asym", "profile", "contour", "read"}, p \in Pars, b \in BoundKinds : Query(q, p, b)

Spec == Init /\ [][Next]_vars

-----------------------------------------------------------------------------
(* Properties (C08) *)
(* After any completed query on a fitted object both copies sit at the optimum, nothing is temporarily fixed, and the *)
(* fit still counts as fitted.                                                                                          *)
QueryDoesNotMove ==
  [][act'.name = "Query" => (bv' = bv /\ nv' = nv /\ fixT' = {} /\ did' /\ sfm')]_vars

CopiesAgree == \A p \in Pars : nv[p] = bv[p]

FixedUntouched == [][\A p \in fixU \cap fixU' : (act'.name # "SetPar") => (bv'[p] = bv[p] /\ nv'[p] = nv[p])]_vars

NoTemporaryFixLeft == fixT = {}

CachesDescribeTheMinimum == Fitted => (covAt \in {"none", "G"} /\ asymAt \in {"none", "G"})

(* NOT an invariant of the code (observation recorded in DESIGN 6/19): limit_parameter resets the iminuit backend    *)
(* (did = FALSE) while NexusFitter keeps reporting state_is_from_minimizer.                                          *)
DidFitMeaning == sfm => did
=============================================================================
