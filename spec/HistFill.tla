------------------------------ MODULE HistFill ------------------------------
(***************************************************************************)
(* kafe2.fit.histogram.container.HistContainer: lazy filling of entries     *)
(* into half-open bins (C12; rejected calls: C19).                          *)
(*                                                                         *)
(* definition : edges, the multiset of entries filled (ghost `filled`)      *)
(* mechanism  : data (underflow, bins, overflow), processed / unprocessed   *)
(*              entry lists, the manual-heights flag                        *)
(* The merge loop of _fill_unprocessed is transcribed iteration by          *)
(* iteration (operator Loop); `it` counts iterations so that termination    *)
(* is checked as the bound  it <= #entries + #edges + 1.                    *)
(***************************************************************************)
EXTENDS Naturals, Integers, Sequences, FiniteSets, SequencesExt, TLC, Json

CONSTANTS EntryVals,     \* values an entry may take (integers; on, between and outside the edges)
          EdgeSeqs,      \* admissible bin-edge sequences (ascending, repeats allowed)
          BadEdgeSeqs,   \* unsorted sequences: must be rejected
          Ctors,         \* constructor catalogue (records)
          MaxEntries, MaxBatch, MaxDepth, Off, Faults

VARIABLES edges, data, processed, unprocessed, manual, filled, act, obs

vars == <<edges, data, processed, unprocessed, manual, filled, act, obs>>

Zeros(n) == [i \in 1..n |-> 0]
SumSeq(s) == FoldLeft(LAMBDA a, b : a + b, 0, s)

(* insertion sort: np.sort *)
RECURSIVE Insert(_, _)
Insert(x, s) == IF s = <<>> THEN <<x>> ELSE IF x <= Head(s) THEN <<x>> \o s ELSE <<Head(s)>> \o Insert(x, Tail(s))
Sort(s) == FoldLeft(LAMBDA acc, x : Insert(x, acc), <<>>, s)

-----------------------------------------------------------------------------
(* Catalogues used by the configurations (cfg: Ctors <- CtorsAll etc.).                             *)
C(kind, e, n, lo, hi, inner, fill) ==
  [kind |-> kind, edges |-> e, n |-> n, lo |-> lo, hi |-> hi, inner |-> inner, fill |-> fill]
CtorsAll ==
  { C("edges", <<0, 1, 2, 3>>, 0, 0, 0, <<>>, <<>>),          \* HistContainer(bin_edges=...)
    C("edges", <<0, 2, 3>>, 0, 0, 0, <<>>, <<>>),             \* non-uniform
    C("edges", <<0, 1, 1, 2>>, 0, 0, 0, <<>>, <<>>),          \* repeated inner edge (an empty bin)
    C("edges", <<1, 2>>, 0, 0, 0, <<>>, <<>>),
    C("nbins", <<0, 1, 2, 3>>, 3, 0, 3, <<>>, <<>>),          \* HistContainer(n_bins, bin_range)
    C("inner", <<0, 1, 2, 3>>, 3, 0, 3, <<1, 2>>, <<>>),      \* inner-edge specification
    C("edges", <<0, 1, 2>>, 0, 0, 0, <<>>, <<1, -1>>) }        \* fill_data in the constructor
EntryValsAll == -1..4
EntryValsWide == -2..6
EntryValsSmall == {-1, 0, 2, 3}
EdgeSeqsAll == { <<0, 1, 2, 3>>, <<0, 2, 3>>, <<0, 1, 1, 2>>, <<1, 2>>, <<0, 0, 1>>, <<1, 3, 3>> }
BadEdgeSeqsAll == { <<2, 1>>, <<0, 2, 1>> }

-----------------------------------------------------------------------------
(* _fill_unprocessed, iteration by iteration.                                                     *)
(* L = [ei, bi, upper, data, proc, it]; python indices: entry index ei-1, bin index bi.           *)
High == edges[Len(edges)]
Low == edges[1]
GE(a, b) == IF "gt_instead_of_ge" \in Faults THEN a > b ELSE a >= b
RECURSIVE Loop(_, _)
Loop(es, L) ==
  IF ~(L.upper <= High) THEN L
  ELSE IF GE(es[L.ei], L.upper)
       THEN IF L.upper = High THEN [L EXCEPT !.it = @ + 1]                     \* last bin: quit
            ELSE Loop(es, [L EXCEPT !.bi = @ + 1, !.upper = edges[L.bi + 2], !.it = @ + 1])
       ELSE LET L1 == [L EXCEPT !.data[L.bi + 1] = @ + 1, !.proc = Append(@, es[L.ei]),
                                !.ei = @ + 1, !.it = @ + 1]
            IN IF L1.ei > Len(es) THEN L1 ELSE Loop(es, L1)

Process(d, pr, un) ==       \* returns [data, processed, it]
  IF un = <<>> THEN [data |-> d, processed |-> pr, it |-> 0]
  ELSE LET es == Sort(un)
           L == Loop(es, [ei |-> 1, bi |-> 0, upper |-> Low, data |-> d, proc |-> pr, it |-> 0])
           rest == SubSeq(es, L.ei, Len(es))                                   \* leftovers are overflow
           d2 == [L.data EXCEPT ![Len(d)] = @ + Len(rest)]
       IN [data |-> d2, processed |-> L.proc \o rest, it |-> L.it]

-----------------------------------------------------------------------------
(* What the property promises: counts by the half-open definition. *)
FilledSeq == filled
InBin(s, i) == Cardinality({k \in DOMAIN s : edges[i] <= s[k] /\ s[k] < edges[i + 1]})
Below(s) == Cardinality({k \in DOMAIN s : s[k] < Low})
Above(s) == Cardinality({k \in DOMAIN s : s[k] >= High})
IdealBins == [i \in 1..(Len(edges) - 1) |-> InBin(FilledSeq, i)]
IdealUnder == Below(FilledSeq)
IdealOver == Above(FilledSeq)
IdealData == <<IdealUnder>> \o IdealBins \o <<IdealOver>>

-----------------------------------------------------------------------------
Bounded(name) == TLCGet("level") <= MaxDepth /\ name \notin Off

(* Constructor catalogue: [kind, edges (resulting), fill]                                           *)
Init ==
  \E c \in Ctors :
    /\ edges = c.edges
    /\ data = Zeros(Len(c.edges) + 1)
    /\ processed = <<>>
    /\ unprocessed = c.fill
    /\ filled = c.fill
    /\ manual = FALSE
    /\ act = [name |-> "Init", ctor |-> c]
    /\ obs = [kind |-> "none"]

Batches == UNION {[1..n -> EntryVals] : n \in 0..MaxBatch}

Fill(b) ==
  /\ Bounded("Fill") /\ b \in Batches /\ Len(filled) + Len(b) <= MaxEntries
  /\ IF manual
     THEN /\ obs' = [kind |-> "reject"] /\ UNCHANGED <<unprocessed, filled>>
     ELSE /\ obs' = [kind |-> "none"]
          /\ unprocessed' = unprocessed \o b
          /\ filled' = filled \o b
  /\ act' = [name |-> "Fill", batch |-> b]
  /\ UNCHANGED <<edges, data, processed, manual>>

FillScalar(e) ==            \* fill(3.0): the scalar path (TypeError branch of list())
  /\ Bounded("FillScalar") /\ e \in EntryVals /\ Len(filled) + 1 <= MaxEntries /\ ~manual
  /\ unprocessed' = Append(unprocessed, e)
  /\ filled' = Append(filled, e)
  /\ act' = [name |-> "FillScalar", e |-> e] /\ obs' = [kind |-> "none"]
  /\ UNCHANGED <<edges, data, processed, manual>>

(* reads that sort the outstanding entries into the bins first *)
ReadProcessing(what) ==
  /\ Bounded("ReadProcessing")
  /\ what \in {"data", "underflow", "overflow"}
  /\ LET skip == what # "data" /\ "overflow_no_process" \in Faults
         R == IF skip THEN [data |-> data, processed |-> processed, it |-> 0]
              ELSE Process(data, processed, unprocessed)
     IN /\ data' = R.data /\ processed' = R.processed
        /\ unprocessed' = IF skip THEN unprocessed ELSE <<>>
        /\ obs' = [kind |-> "value", it |-> R.it, n |-> Len(unprocessed) + Len(edges),
                   v |-> CASE what = "data" -> SubSeq(R.data, 2, Len(R.data) - 1)
                           [] what = "underflow" -> <<R.data[1]>>
                           [] what = "overflow" -> <<R.data[Len(R.data)]>>]
  /\ act' = [name |-> "Read", what |-> what]
  /\ UNCHANGED <<edges, manual, filled>>

(* reads that do not touch the entry lists *)
ReadPlain(what) ==
  /\ Bounded("ReadPlain")
  /\ what \in {"n_entries", "raw", "edges", "n_bins"}
  /\ obs' = [kind |-> "value", it |-> 0, n |-> 0,
             v |-> CASE what = "n_entries" -> <<SumSeq(data) + Len(unprocessed)>>
                     [] what = "raw" -> Sort(processed \o unprocessed)        \* compared as a multiset
                     [] what = "edges" -> edges
                     [] what = "n_bins" -> <<Len(edges) - 1>>]
  /\ act' = [name |-> "Read", what |-> what]
  /\ UNCHANGED <<edges, data, processed, unprocessed, manual, filled>>

Rebin(ne) ==
  /\ Bounded("Rebin") /\ ne \in EdgeSeqs /\ ne # edges
  /\ IF manual
     THEN /\ obs' = [kind |-> "reject"] /\ UNCHANGED <<edges, data, processed, unprocessed>>
     ELSE /\ obs' = [kind |-> "none"]
          /\ edges' = ne
          /\ data' = Zeros(Len(ne) + 1)
          /\ unprocessed' = IF "no_requeue_on_rebin" \in Faults THEN unprocessed ELSE unprocessed \o processed
          /\ processed' = <<>>
  /\ act' = [name |-> "Rebin", edges |-> ne]
  /\ UNCHANGED <<manual, filled>>

RebinRejected(ne) ==        \* unsorted edges: ValueError, nothing changes
  /\ Bounded("RebinRejected") /\ "rejects" \notin Off /\ ne \in BadEdgeSeqs
  /\ act' = [name |-> "Rebin", edges |-> ne] /\ obs' = [kind |-> "reject"]
  /\ UNCHANGED <<edges, data, processed, unprocessed, manual, filled>>

(* set_bins(heights, underflow, overflow): a pre-calculated histogram; heights = 1,2,..; uf = 1, of = 2 *)
Heights(n) == [i \in 1..n |-> i]
SetBins(n) ==
  /\ Bounded("SetBins") /\ n \in {Len(edges) - 1, Len(edges)}      \* the second one has the wrong length
  /\ IF n = Len(edges) - 1
     THEN /\ obs' = [kind |-> "none"]
          /\ manual' = TRUE
          /\ data' = <<1>> \o Heights(n) \o <<2>>
          /\ processed' = <<>> /\ unprocessed' = <<>>
          /\ filled' = <<>>
     ELSE /\ "rejects" \notin Off
          /\ obs' = [kind |-> "reject"]
          /\ manual' = ("manual_before_check" \in Faults \/ manual)
          /\ UNCHANGED <<data, processed, unprocessed, filled>>
  /\ act' = [name |-> "SetBins", n |-> n]
  /\ UNCHANGED <<edges>>

SetDataRejected ==          \* the `data` setter always refuses
  /\ Bounded("SetDataRejected") /\ "rejects" \notin Off
  /\ act' = [name |-> "SetData"] /\ obs' = [kind |-> "reject"]
  /\ UNCHANGED <<edges, data, processed, unprocessed, manual, filled>>

Next ==
  \/ \E b \in Batches : Fill(b)
  \/ \E e \in EntryVals : FillScalar(e)
  \/ \E w \in {"data", "underflow", "overflow"} : ReadProcessing(w)
  \/ \E w \in {"n_entries", "raw", "edges", "n_bins"} : ReadPlain(w)
  \/ \E ne \in EdgeSeqs : Rebin(ne)
  \/ \E ne \in BadEdgeSeqs : RebinRejected(ne)
  \/ \E n \in 1..5 : SetBins(n)
  \/ SetDataRejected

Spec == Init /\ [][Next]_vars

-----------------------------------------------------------------------------
(* Properties *)
IdealNow == IF manual THEN data ELSE IdealData        \* after set_bins the heights ARE the definition

IdealRead(what) ==
  CASE what = "data" -> SubSeq(IdealNow, 2, Len(IdealNow) - 1)
    [] what = "underflow" -> <<IdealNow[1]>>
    [] what = "overflow" -> <<IdealNow[Len(IdealNow)]>>
    [] what = "n_entries" -> <<IF manual THEN SumSeq(data) ELSE Len(filled)>>
    [] what = "raw" -> Sort(filled)
    [] what = "edges" -> edges
    [] what = "n_bins" -> <<Len(edges) - 1>>

CountsOnce == (act.name = "Read" /\ obs.kind = "value") => obs.v = IdealRead(act.what)

Conservation ==      \* underflow + bins + overflow + not-yet-sorted = number filled, in every state
  ~manual => SumSeq(data) + Len(unprocessed) = Len(filled)

EntriesKept == ~manual => Sort(processed \o unprocessed) = Sort(filled)

ProcessedMatchesData == ~manual => Len(processed) = SumSeq(data)

(* the mechanism's lemma: what has been sorted into the bins is sorted correctly *)
SortedCorrectly ==
  ~manual =>
     /\ data[1] = Below(processed)
     /\ data[Len(data)] = Above(processed)
     /\ \A i \in 1..(Len(edges) - 1) : data[i + 1] = InBin(processed, i)

LoopTerminatesInBound == (act.name = "Read" /\ obs.kind = "value") => obs.it <= obs.n + 1

RejectLeavesUnchanged ==
  [][obs'.kind = "reject" => UNCHANGED <<edges, data, processed, unprocessed, manual, filled>>]_vars
=============================================================================
