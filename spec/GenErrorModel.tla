--------------------------- MODULE GenErrorModel ---------------------------
(* Path-tree generator for ErrorModel (see GenNexus.tla for the scheme). *)
EXTENDS ErrorModel
VARIABLE hist
GInit == Init /\ hist = <<act>>
GNext == Next /\ hist' = Append(hist, act')
GSpec == GInit /\ [][GNext]_<<vars, hist>>
PathOut == PrintT(ToJson([h |-> hist, a |-> act', o |-> obs']))
StateOut ==
  PrintT(ToJson([sh |-> hist,
                 ideal |-> [ax \in Axes |-> IdealCov(ax)],
                 truevals |-> [ax \in Axes |-> TrueVals(ax)],
                 on |-> {n \in Names : status[n] = "on"}, present |-> Present]))
=============================================================================
