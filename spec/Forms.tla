------------------------------- MODULE Forms -------------------------------
(***************************************************************************)
(* Equivalent specifications of the same problem (C14).                     *)
(*                                                                          *)
(* An abstract uncertainty source / parameter constraint can be written in  *)
(* several concrete FORMS (kafe2/core/error.py, core/constraint.py,         *)
(* fit/util/wrapper.py, representation/error/common_error_tools.py).        *)
(* Two fits are declared side by side: every abstract item is added to the  *)
(* left fit in one form and to the right fit in another.  The normal form   *)
(* of a side is the integer covariance matrix its forms denote (x 20000     *)
(* for sources, x 10000 for constraints); the property is that the sides    *)
(* denote the same problem at every step.                                   *)
(***************************************************************************)
EXTENDS Naturals, Integers, Sequences, FiniteSets, SequencesExt, TLC, Json

CONSTANTS Data, MaxDepth, Off, Faults

DataSets == [pos |-> <<2, 1, 3>>, mixed |-> <<2, 0 - 1, 3>>, neg |-> <<0 - 2, 0 - 1, 0 - 4>>]
D == DataSets[Data]
N == Len(D)
Abs(z) == IF z < 0 THEN -z ELSE z
SameSign == \A i, j \in 1..N : D[i] * D[j] > 0

(* abstract sources on the y axis:  kind "abs": sigma = s/10 ;  kind "rel": sigma_i = p % of the data value d_i ; rho = h/2 *)
(*                                kind "relm": sigma_i = p % of the MODEL value m_i (at the default parameters m = <<2, 3, 4>>)                    *)
Sources == [kind : {"abs"}, s : {2, 5}, h : {0, 1, 2}] \cup [kind : {"rel"}, s : {10, 20}, h : {0, 1, 2}] \cup [kind : {"relm"}, s : {10}, h : {0, 2}]
M == <<2, 3, 4>>

SourceForms == {"scalar", "vector", "cov", "cor", "abs_vector", "abs_cov", "wrapper", "yaml_short", "yaml_full"}

(* which forms can express which source *)
Admissible(f, src) ==
  IF src.kind = "relm" THEN f \in {"scalar", "vector", "wrapper"}       \* the wrappers' default: relative uncertainties refer to the model
  ELSE
  CASE f \in {"scalar", "vector", "cov", "cor", "yaml_full"} -> TRUE
    [] f = "abs_vector" -> src.kind = "rel" /\ (src.h = 0 \/ SameSign \/ "abs_ignores_sign" \in Faults)   \* |p d_i| loses the sign of d_i d_j
    [] f = "abs_cov"    -> src.kind = "rel"
    [] f = "wrapper"    -> src.h \in {0, 2}                  \* y_error / y_error_rel (h = 0), y_error_cor / y_error_cor_rel (h = 2)
    [] f = "yaml_short" -> src.h = 0                         \* number, list of numbers, "p%" strings

(* covariance x 20000 denoted by a form *)
Sigma2(src, i, j) ==       \* sigma_i * sigma_j x 10000, signed for relative sources (sigma_i = p d_i / 100)
  IF src.kind = "abs" THEN 100 * src.s * src.s ELSE IF src.kind = "rel" THEN src.s * src.s * D[i] * D[j] ELSE src.s * src.s * M[i] * M[j]
AbsSigma2(src, i, j) == src.s * src.s * Abs(D[i]) * Abs(D[j])
Cov(f, src) ==
  [i \in 1..N |-> [j \in 1..N |->
     IF f = "abs_vector" THEN (IF i = j THEN 2 * AbsSigma2(src, i, j) ELSE src.h * AbsSigma2(src, i, j))
     ELSE (IF i = j THEN 2 * Sigma2(src, i, j) ELSE src.h * Sigma2(src, i, j))]]
Zero == [i \in 1..N |-> [j \in 1..N |-> 0]]
Plus(A, B) == [i \in 1..N |-> [j \in 1..N |-> A[i][j] + B[i][j]]]

(* constraints on the first one or two parameters: values in units, uncertainties in tenths; matrix: correlation h/2 *)
Constraints == [kind : {"simple"}, v : {2, 0 - 2}, u : {5}] \cup [kind : {"matrix"}, v : {<<2, 1>>, <<2, 0 - 1>>}, u : {<<5, 2>>}, h : {0, 1}]
ConstraintForms == {"abs", "rel", "cov", "cor", "rel_cov", "rel_cor", "wrapper", "yaml"}
CAdmissible(f, c) ==
  CASE c.kind = "simple" -> f \in {"abs", "rel", "wrapper", "yaml"}
    [] c.kind = "matrix" -> f \in {"cov", "cor", "rel_cov", "rel_cor", "yaml"}
(* covariance x 200 of the constraint: the relative forms divide by v_i v_j and multiply back -- the same matrix, with its sign *)
CCov(f, c) ==
  IF c.kind = "simple" THEN <<<<2 * c.u * c.u>>>>
  ELSE [i \in 1..2 |-> [j \in 1..2 |-> IF i = j THEN 2 * c.u[i] * c.u[i] ELSE c.h * c.u[i] * c.u[j]]]

(* set-up of the parameters: fixing (also at exactly 0), limiting (also with a limit of exactly 0), start values *)
Setups == [kind : {"fix"}, p : {1, 2}, v : {0, 2}] \cup [kind : {"limit"}, p : {1, 2}, lo : {0}, hi : {4}] \cup [kind : {"start"}, v : {<<2, 0>>, <<0, 3>>}]
SetupForms == {"method", "wrapper", "yaml"}
SAdmissible(f, st) == f \in SetupForms /\ (st.kind = "start" => f \in {"method", "wrapper"})

VARIABLES left, right,     \* sequences of [item, form]
          nsrc, ncon, nset, act, obs
vars == <<left, right, nsrc, ncon, nset, act, obs>>
Bounded(name) == TLCGet("level") <= MaxDepth /\ name \notin Off

Init == left = <<>> /\ right = <<>> /\ nsrc = 0 /\ ncon = 0 /\ nset = 0 /\ act = [name |-> "Init", data |-> D] /\ obs = [kind |-> "none"]

(* the right-hand fit always uses the canonical form -- the explicit absolute covariance matrix -- so that every form is compared *)
(* with the same partner and, transitively, with every other form                                                               *)
Canonical(src) == IF src.kind = "abs" THEN "cov" ELSE IF src.kind = "rel" THEN "abs_cov" ELSE "scalar"
CCanonical(c) == IF c.kind = "simple" THEN "abs" ELSE "cov"
Declare(src, fl, fr) ==
  /\ Bounded("Declare") /\ src \in Sources /\ nsrc < 2
  /\ fl \in SourceForms /\ fr = Canonical(src) /\ fl # fr /\ Admissible(fl, src) /\ Admissible(fr, src)
  /\ (nsrc = 0 => src.h # 2)            \* the first source keeps the total covariance regular
  \* the normal form of a model-relative source is taken at the default parameters: not together with fixed / start values
  /\ (src.kind = "relm" => \A k \in DOMAIN left : left[k].item.kind \notin {"fix", "start"})
  /\ left' = Append(left, [item |-> src, form |-> fl]) /\ right' = Append(right, [item |-> src, form |-> fr])
  /\ nsrc' = nsrc + 1
  /\ act' = [name |-> "Declare", src |-> src, fl |-> fl, fr |-> fr] /\ obs' = [kind |-> "none"]
  /\ UNCHANGED <<ncon, nset>>
Constrain(c, fl, fr) ==
  /\ Bounded("Constrain") /\ c \in Constraints /\ ncon < 1
  /\ fl \in ConstraintForms /\ fr = CCanonical(c) /\ fl # fr /\ CAdmissible(fl, c) /\ CAdmissible(fr, c)
  /\ left' = Append(left, [item |-> c, form |-> fl]) /\ right' = Append(right, [item |-> c, form |-> fr])
  /\ ncon' = ncon + 1
  /\ act' = [name |-> "Constrain", c |-> c, fl |-> fl, fr |-> fr] /\ obs' = [kind |-> "none"]
  /\ UNCHANGED <<nsrc, nset>>
SetUp(st, fl, fr) ==
  /\ Bounded("SetUp") /\ st \in Setups /\ nset < 1
  /\ fl \in SetupForms /\ fr = "method" /\ fl # fr /\ SAdmissible(fl, st)
  /\ (st.kind \in {"fix", "start"} => \A k \in DOMAIN left : left[k].item.kind # "relm")
  /\ left' = Append(left, [item |-> st, form |-> fl]) /\ right' = Append(right, [item |-> st, form |-> fr])
  /\ nset' = nset + 1
  /\ act' = [name |-> "SetUp", st |-> st, fl |-> fl, fr |-> fr] /\ obs' = [kind |-> "none"]
  /\ UNCHANGED <<nsrc, ncon>>
Compare ==
  /\ Bounded("Compare") /\ (nsrc > 0 \/ "Declare" \in Off) /\ act.name # "Compare"
  /\ act' = [name |-> "Compare"] /\ obs' = [kind |-> "none"]
  /\ UNCHANGED <<left, right, nsrc, ncon, nset>>
Next == (\E s \in Sources, fl, fr \in SourceForms : Declare(s, fl, fr)) \/ (\E c \in Constraints, fl, fr \in ConstraintForms : Constrain(c, fl, fr))
        \/ (\E st \in Setups, fl, fr \in SetupForms : SetUp(st, fl, fr)) \/ Compare
Spec == Init /\ [][Next]_vars

-----------------------------------------------------------------------------
IsSource(e) == e.item.kind \in {"abs", "rel", "relm"}
Total(side) == FoldLeft(LAMBDA acc, e : IF IsSource(e) THEN Plus(acc, Cov(e.form, e.item)) ELSE acc, Zero, side)
IsCons(e) == e.item.kind \in {"simple", "matrix"}
ConsOf(side) == SelectSeq(side, IsCons)
SetupOf(side) == [k \in DOMAIN SelectSeq(side, LAMBDA e : ~IsSource(e) /\ ~IsCons(e)) |-> SelectSeq(side, LAMBDA e : ~IsSource(e) /\ ~IsCons(e))[k].item]
ConsNormal(side) == [k \in DOMAIN ConsOf(side) |-> [v |-> ConsOf(side)[k].item.v, cov |-> CCov(ConsOf(side)[k].form, ConsOf(side)[k].item)]]

(* C14 *)
SidesDenoteTheSameProblem == Total(left) = Total(right) /\ ConsNormal(left) = ConsNormal(right) /\ SetupOf(left) = SetupOf(right)
Symmetric == \A i, j \in 1..N : Total(left)[i][j] = Total(left)[j][i]
=============================================================================
