------------------------------- MODULE FileIO -------------------------------
(***************************************************************************)
(* kafe2.fit.io (FileIOMixin, OutputFileHandle / InputFileHandle) and the   *)
(* YAML writers: the handle protocol of to_file / from_file (C09).          *)
(*                                                                         *)
(* A path holds a sequence of documents.  to_file opens the path in APPEND  *)
(* mode, truncates to 0, writes preface + one document.  from_file through  *)
(* class K parses the content and checks the type of the object it built.   *)
(* Object kinds and their configurations come from a catalogue that the     *)
(* harness instantiates with real objects (containers, parametric models,   *)
(* constraints, fits).                                                      *)
(***************************************************************************)
EXTENDS Naturals, Sequences, FiniteSets, TLC, Json

CONSTANTS Objects,       \* catalogue: set of object ids (the harness maps them to configured real objects)
          MaxDepth, Off, Faults

VARIABLES file,          \* sequence of object ids = the documents the path holds
          mem,           \* the object a successful read produced last ("-" if none)
          act, obs

vars == <<file, mem, act, obs>>
Bounded(name) == TLCGet("level") <= MaxDepth /\ name \notin Off

Init == /\ file = <<>> /\ mem = "-" /\ act = [name |-> "Init"] /\ obs = [kind |-> "none"]

Write(o) ==              \* o.to_file(path)
  /\ Bounded("Write") /\ o \in Objects
  /\ file' = IF "no_truncate" \in Faults THEN Append(file, o) ELSE <<o>>
  /\ act' = [name |-> "Write", id |-> o] /\ obs' = [kind |-> "none"]
  /\ UNCHANGED mem

(* K.from_file(path): K = the object's own class ("own"), the base class of its family ("base"), or another class of the family *)
Read(via) ==
  /\ Bounded("Read") /\ via \in {"own", "base", "other"} /\ file # <<>>
  /\ LET o == file[Len(file)] IN
       IF Len(file) # 1 THEN /\ obs' = [kind |-> "garbled"] /\ UNCHANGED mem
       ELSE IF via = "other" THEN /\ obs' = [kind |-> "reject"] /\ UNCHANGED mem
       ELSE /\ obs' = [kind |-> "value", id |-> o] /\ mem' = o
  /\ act' = [name |-> "Read", via |-> via]
  /\ UNCHANGED file

Rewrite ==               \* save the object that was read back (second cycle)
  /\ Bounded("Rewrite") /\ mem # "-"
  /\ file' = IF "no_truncate" \in Faults THEN Append(file, mem) ELSE <<mem>>
  /\ act' = [name |-> "Rewrite"] /\ obs' = [kind |-> "none"]
  /\ UNCHANGED mem

Next == (\E o \in Objects : Write(o)) \/ (\E v \in {"own", "base", "other"} : Read(v)) \/ Rewrite
Spec == Init /\ [][Next]_vars

ExactlyOneDocument == Len(file) <= 1
ReadReturnsLastWritten == (act.name = "Read" /\ obs.kind = "value") => (file = <<obs.id>>)
NeverGarbled == obs.kind # "garbled"
=============================================================================
