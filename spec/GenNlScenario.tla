--------------------------- MODULE GenNlScenario ---------------------------
EXTENDS NlScenario
VARIABLE hist
GInit == Init /\ hist = <<[name |-> "Init", cfg |-> cfg]>>
GNext == Next /\ hist' = Append(hist, act')
GSpec == GInit /\ [][GNext]_<<vars, hist>>
PathOut == PrintT(ToJson([h |-> hist, a |-> act', o |-> obs']))
StateOut == PrintT(ToJson([sh |-> hist, fixed |-> FixedSet, limited |-> LimitedSet, nfits |-> nfits]))
=============================================================================
