SPECIFICATION Spec
CONSTANTS
  Nodes = {"n1","n2","n3","n4","n5"}
  Vals = {"0","1"}
  FSyms = {"F","P"}
  ShapeIds = {"chain","diamond","deponly","aliases","tuple","fallback","fallback2","ops","shared"}
  MaxDepth = 3
  Off = {}
  Faults = {}
INVARIANT ReadCorrect
INVARIANT AtMostOncePerRead
INVARIANT FrozenKeepsSnap
INVARIANT FreshIsIdeal
INVARIANT StaleUpwardClosed
INVARIANT ParentsCoverChildren
INVARIANT Acyclic
PROPERTY NoSpuriousRecompute
PROPERTY RejectLeavesUnchanged
CHECK_DEADLOCK FALSE
