----------------------------- MODULE TraceNexus -----------------------------
(***************************************************************************)
(* Trace validation (direction B) for the computation graph: a PROPERTY     *)
(* MONITOR for C04 driven by events recorded from real executions           *)
(* (harness/trace/recorder.py).  It makes no assumption about how the code  *)
(* keeps its caches -- only about what a user-level read may return:        *)
(*                                                                          *)
(*   ReadCorrect   a read returns a value computed from the current         *)
(*                 content of every transitive input that is not behind a   *)
(*                 frozen node;                                             *)
(*   AtMostOnce    no node is evaluated twice within one user-level call;   *)
(*   NoSpurious    a node is evaluated only if something in its support     *)
(*                 changed since its last evaluation.                       *)
(*                                                                          *)
(* Content is abstracted by version counters: ver[n] counts the changes of  *)
(* node n's OWN content (assignment, external mark, unfreeze, structure or  *)
(* function change); seen[n] is the version vector that n's cached value    *)
(* was computed from.                                                       *)
(***************************************************************************)
EXTENDS Naturals, Sequences, FiniteSets, TLC, Json, IOUtils

Trace == ndJsonDeserialize(IOEnv.TRACE_FILE)
N == Len(Trace)

GraphEvents == {i \in 1..N : Trace[i].e = "graph"}
AllNodes == UNION {{Trace[i].adj[k][1] : k \in 1..Len(Trace[i].adj)} : i \in GraphEvents}

VARIABLES l,        \* next line of the trace
          kids,     \* node -> sequence of children
          ver, seen, frozen,
          done,     \* nodes evaluated since the last user-level event
          verdict   \* <<"ok", 0, "">> or <<clause, line, node>> of the first failing event
vars == <<l, kids, ver, seen, frozen, done, verdict>>

Max(a, b) == IF a > b THEN a ELSE b
Zero == [m \in AllNodes |-> 0]
Own(n) == [m \in AllNodes |-> IF m = n THEN ver[n] ELSE 0]
Merge(a, b) == [m \in AllNodes |-> Max(a[m], b[m])]
RECURSIVE MergeSeq(_, _)
MergeSeq(acc, s) == IF s = <<>> THEN acc ELSE MergeSeq(Merge(acc, Head(s)), Tail(s))
(* a leaf that was given its value at construction and never assigned since: its cached value is its own content *)
SeenOf(c) == IF seen[c] = Zero /\ kids[c] = <<>> THEN Own(c) ELSE seen[c]
SeenOfKids(n) == MergeSeq(Zero, [k \in 1..Len(kids[n]) |-> SeenOf(kids[n][k])])

RECURSIVE Ideal(_)
Ideal(n) == MergeSeq(Own(n), [k \in 1..Len(kids[n]) |-> IF kids[n][k] \in frozen THEN SeenOf(kids[n][k]) ELSE Ideal(kids[n][k])])

Init ==
  /\ l = 1
  /\ kids = [n \in AllNodes |-> <<>>]
  /\ ver = [n \in AllNodes |-> 1] /\ seen = [n \in AllNodes |-> Zero]
  /\ frozen = {} /\ done = {} /\ verdict = <<"ok", 0, "">>

Ev == Trace[l]
Fail(clause, n) == IF verdict[1] = "ok" THEN <<clause, l, n>> ELSE verdict
IsTop == "top" \in DOMAIN Ev /\ Ev.top

Graph ==
  /\ Ev.e = "graph"
  /\ kids' = [n \in AllNodes |-> IF \E k \in 1..Len(Ev.adj) : Ev.adj[k][1] = n
                                   THEN (CHOOSE p \in {Ev.adj[k] : k \in 1..Len(Ev.adj)} : p[1] = n)[2] ELSE kids[n]]
  /\ UNCHANGED <<ver, seen, frozen, done, verdict>>
Bump(n) == ver' = [ver EXCEPT ![n] = @ + 1]
Assign ==        \* a leaf holds what was assigned: its cached value is its own new content
  /\ Ev.e = "assign"
  /\ Bump(Ev.n)
  /\ seen' = [seen EXCEPT ![Ev.n] = [m \in AllNodes |-> IF m = Ev.n THEN ver[Ev.n] + 1 ELSE 0]]
  /\ done' = IF IsTop THEN {} ELSE done
  /\ UNCHANGED <<kids, frozen, verdict>>
Mark ==
  /\ Ev.e = "mark"
  /\ Bump(Ev.n)
  /\ done' = IF IsTop THEN {} ELSE done
  /\ UNCHANGED <<kids, seen, frozen, verdict>>
Freeze ==
  /\ Ev.e = "freeze" /\ frozen' = frozen \cup {Ev.n}
  /\ done' = IF IsTop THEN {} ELSE done
  /\ UNCHANGED <<kids, ver, seen, verdict>>
Unfreeze ==
  /\ Ev.e = "unfreeze" /\ frozen' = frozen \ {Ev.n} /\ Bump(Ev.n)
  /\ done' = IF IsTop THEN {} ELSE done
  /\ UNCHANGED <<kids, seen, verdict>>
Eval ==
  /\ Ev.e = "eval"
  /\ LET new == Merge(Own(Ev.n), SeenOfKids(Ev.n)) IN
       /\ seen' = IF Ev.ok THEN [seen EXCEPT ![Ev.n] = new] ELSE seen
       /\ verdict' = IF ~Ev.ok THEN verdict
                     ELSE IF IsTop THEN verdict             \* update() requested by the caller itself: an explicit recomputation
                     ELSE IF Ev.n \in done THEN Fail("AtMostOnce", Ev.n)
                     ELSE IF new = seen[Ev.n] THEN Fail("NoSpurious", Ev.n)
                     ELSE verdict
  /\ done' = IF IsTop THEN {} ELSE done \cup {Ev.n}
  /\ UNCHANGED <<kids, ver, frozen>>
Read ==
  /\ Ev.e = "read"
  /\ verdict' = IF Ev.ok /\ Ev.n \notin frozen /\ SeenOf(Ev.n) # Ideal(Ev.n) THEN Fail("ReadCorrect", Ev.n) ELSE verdict
  /\ done' = {}
  /\ UNCHANGED <<kids, ver, seen, frozen>>

Names == Ev.e = "names" /\ UNCHANGED <<kids, ver, seen, frozen, done, verdict>>       \* legend line for humans
Next == l <= N /\ l' = l + 1 /\ (Graph \/ Assign \/ Mark \/ Freeze \/ Unfreeze \/ Eval \/ Read \/ Names)
Spec == Init /\ [][Next]_vars

(* total verdict: printed once, at the end *)
Accepted == l = N + 1
Report == IF l = N + 1 THEN PrintT(<<"TRACE-VERDICT", verdict, N>>) ELSE TRUE
=============================================================================
