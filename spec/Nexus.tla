------------------------------- MODULE Nexus -------------------------------
(***************************************************************************)
(* The kafe2 computation graph (kafe2/core/fitters/nexus.py), layer L4.    *)
(*                                                                         *)
(* One action per public call of a node / of the Nexus registry.  Two      *)
(* kinds of state side by side:                                            *)
(*   definition : kind, children, params, fsym, parameter values           *)
(*   mechanism  : stale, frozen, cache, parents (what the code maintains)  *)
(*   ghosts     : snap (value a node had when frozen), touched (an input   *)
(*                was assigned / restructured since the last evaluation)   *)
(* Values are TERMS: a parameter holds a small integer, a function value   *)
(* is <<fsym, <<argument terms>>>>, so equality of terms is equality of    *)
(* "what was it computed from".                                            *)
(*                                                                         *)
(* Faults is a set of names of deviations the pinned tree had (or that a   *)
(* change could introduce); with Faults = {} the spec describes the        *)
(* repaired tree.  TLC finds the counterexamples with a fault switched on  *)
(* (selftest), the replay finds them in the code.                          *)
(***************************************************************************)
EXTENDS Naturals, Integers, Sequences, FiniteSets, SequencesExt, TLC, Json

CONSTANTS Nodes,        \* node identifiers (strings)
          Vals,         \* values assignable to parameters
          FSyms,        \* function symbols usable by SetFunc
          ShapeIds,     \* which catalogue shapes Init may choose
          MaxDepth,     \* bound on behaviour length
          Off,          \* names of actions switched off in this configuration ("rejects" = all rejecting variants)
          Faults

VARIABLES shape, kind, children, params, fsym, parents, stale, frozen, cache, snap, touched, fbFailed, act, obs

defVars  == <<kind, children, params, fsym, parents>>
mechVars == <<stale, frozen, cache>>
vars     == <<shape, kind, children, params, fsym, parents, stale, frozen, cache, snap, touched, fbFailed, act, obs>>

Leaf(t) == <<t, <<>>>>          \* every value is a term <<tag, <<sub-terms>>>>: TLC compares like with like
None  == Leaf("None")
Raise == Leaf("RAISE")
OpSyms == {"add", "neg"}        \* interpreted like Python operators: raise on a None argument
NodeSeq == <<"n1", "n2", "n3", "n4", "n5">>


-----------------------------------------------------------------------------
(* Catalogue of initial graphs.  n5 is always a spare, unattached parameter *)
(* so that structural edits have something to attach.                      *)

Blank == [kind |-> [n \in Nodes |-> "none"], children |-> [n \in Nodes |-> <<>>],
          params |-> [n \in Nodes |-> <<>>], fsym |-> [n \in Nodes |-> "-"]]

Mk(ks, ch, pa, fs) ==
  [kind     |-> [n \in Nodes |-> IF n \in DOMAIN ks THEN ks[n] ELSE "none"],
   children |-> [n \in Nodes |-> IF n \in DOMAIN ch THEN ch[n] ELSE <<>>],
   params   |-> [n \in Nodes |-> IF n \in DOMAIN pa THEN pa[n] ELSE <<>>],
   fsym     |-> [n \in Nodes |-> IF n \in DOMAIN fs THEN fs[n] ELSE "-"]]

Shape(id) ==
  CASE id = "chain" ->      \* p -> F -> G -> alias
         Mk([n1 |-> "param", n2 |-> "func", n3 |-> "func", n4 |-> "alias", n5 |-> "param"],
            [n2 |-> <<"n1">>, n3 |-> <<"n2">>, n4 |-> <<"n3">>],
            [n2 |-> <<"n1">>, n3 |-> <<"n2">>],
            [n2 |-> "F", n3 |-> "G"])
    [] id = "diamond" ->    \* p -> F, p -> G, H(F, G)
         Mk([n1 |-> "param", n2 |-> "func", n3 |-> "func", n4 |-> "func", n5 |-> "param"],
            [n2 |-> <<"n1">>, n3 |-> <<"n1">>, n4 |-> <<"n2", "n3">>],
            [n2 |-> <<"n1">>, n3 |-> <<"n1">>, n4 |-> <<"n2", "n3">>],
            [n2 |-> "F", n3 |-> "G", n4 |-> "H"])
    [] id = "deponly" ->    \* F(p) with a dependency-only edge to q; G(F)
         Mk([n1 |-> "param", n2 |-> "param", n3 |-> "func", n4 |-> "func", n5 |-> "param"],
            [n3 |-> <<"n1", "n2">>, n4 |-> <<"n3">>],
            [n3 |-> <<"n1">>, n4 |-> <<"n3">>],
            [n3 |-> "F", n4 |-> "G"])
    [] id = "aliases" ->    \* alias of alias feeding a function
         Mk([n1 |-> "param", n2 |-> "alias", n3 |-> "alias", n4 |-> "func", n5 |-> "param"],
            [n2 |-> <<"n1">>, n3 |-> <<"n2">>, n4 |-> <<"n3">>],
            [n4 |-> <<"n3">>],
            [n4 |-> "F"])
    [] id = "tuple" ->      \* container of nodes feeding a function
         Mk([n1 |-> "param", n2 |-> "param", n3 |-> "tuple", n4 |-> "func", n5 |-> "param"],
            [n3 |-> <<"n1", "n2">>, n4 |-> <<"n3">>],
            [n4 |-> <<"n3">>],
            [n4 |-> "F"])
    [] id = "fallback" ->   \* first alternative is an Empty node (raises), second a function
         Mk([n1 |-> "empty", n2 |-> "param", n3 |-> "func", n4 |-> "fallback", n5 |-> "param"],
            [n3 |-> <<"n2">>, n4 |-> <<"n1", "n3">>],
            [n3 |-> <<"n2">>],
            [n3 |-> "F"])
    [] id = "fallback2" ->  \* first alternative is a PARTIAL function: P raises while its argument is 0
         Mk([n1 |-> "param", n2 |-> "func", n3 |-> "param", n4 |-> "fallback", n5 |-> "param"],
            [n2 |-> <<"n1">>, n4 |-> <<"n2", "n3">>],
            [n2 |-> <<"n1">>],
            [n2 |-> "P"])
    [] id = "ops" ->        \* operator-built expression  -(p + q)
         Mk([n1 |-> "param", n2 |-> "param", n3 |-> "func", n4 |-> "func", n5 |-> "param"],
            [n3 |-> <<"n1", "n2">>, n4 |-> <<"n3">>],
            [n3 |-> <<"n1", "n2">>, n4 |-> <<"n3">>],
            [n3 |-> "add", n4 |-> "neg"])
    [] id = "shared" ->     \* duplicate child: H(p, p), and a second consumer of the shared sub-expression
         Mk([n1 |-> "param", n2 |-> "func", n3 |-> "func", n4 |-> "func", n5 |-> "param"],
            [n2 |-> <<"n1", "n1">>, n3 |-> <<"n2">>, n4 |-> <<"n2", "n3">>],
            [n2 |-> <<"n1", "n1">>, n3 |-> <<"n2">>, n4 |-> <<"n2", "n3">>],
            [n2 |-> "H", n3 |-> "F", n4 |-> "G"])

Computed(k) == k \in {"func", "alias", "tuple", "fallback"}

-----------------------------------------------------------------------------
(* mark_for_update + notify_parents as a closure over the parent relation.  *)
(* Parameter.mark_for_update is a no-op; a stale or frozen node stops the  *)
(* propagation.                                                            *)
RECURSIVE MarkFrom(_, _)
MarkFrom(todo, st) ==
  IF todo = {} THEN st
  ELSE LET n == CHOOSE x \in todo : TRUE IN
       IF kind[n] = "param" \/ st[n] \/ (frozen[n] /\ "mark_through_frozen" \notin Faults)
       THEN MarkFrom(todo \ {n}, st)
       ELSE MarkFrom((todo \ {n}) \cup parents[n], [st EXCEPT ![n] = TRUE])

(* like MarkFrom but for an arbitrary structure (used by structural edits after they changed parents) *)
RECURSIVE MarkFromP(_, _, _)
MarkFromP(todo, st, par) ==
  IF todo = {} THEN st
  ELSE LET n == CHOOSE x \in todo : TRUE IN
       IF kind[n] = "param" \/ st[n] \/ frozen[n]
       THEN MarkFromP(todo \ {n}, st, par)
       ELSE MarkFromP((todo \ {n}) \cup par[n], [st EXCEPT ![n] = TRUE], par)

(* all nodes whose definition (transitively) depends on one of the nodes in S, for structure ch *)
RECURSIVE DependentsOf(_, _, _)
DependentsOf(S, acc, ch) ==
  LET new == {p \in Nodes : Range(ch[p]) \cap (S \cup acc) # {}} \ acc
  IN IF new = {} THEN acc ELSE DependentsOf(S, acc \cup new, ch)

Touch(S, ch) == [n \in Nodes |-> touched[n] \/ n \in S \/ n \in DependentsOf(S, {}, ch)]
TouchDeps(S, ch) == [n \in Nodes |-> touched[n] \/ n \in DependentsOf(S, {}, ch)]

-----------------------------------------------------------------------------
(* Evaluation.  S = [st, ca, calls, err] is the part of the state a read may change. *)

(* Dependency-only children (add_dependency) are the node's declared HIDDEN inputs: the function reads *)
(* them through a closure, after Function.update has brought all children up to date.              *)
Deps(n) == SelectSeq(children[n], LAMBDA c : c \notin Range(params[n]))
Inputs(n) == params[n] \o Deps(n)

Apply(sym, args) ==
  IF sym \in OpSyms /\ \E i \in DOMAIN args : args[i] = None THEN Raise
  ELSE IF sym = "P" /\ Len(args) > 0 /\ args[1] = Leaf("0") THEN Raise      \* partial function
  ELSE <<sym, args>>

RECURSIVE Upd(_, _), Val(_, _)
Val(n, S) ==                                   \* the `value` getter
  IF S.err THEN S
  ELSE IF kind[n] = "empty" THEN [S EXCEPT !.err = TRUE]
  ELSE IF S.st[n] /\ ~frozen[n] THEN Upd(n, S) ELSE S

Upd(n, S) ==
  CASE kind[n] = "func" ->
         \* Function.update: stale non-frozen children first (child.update()), then _par.value, then call
         LET S1 == FoldLeft(LAMBDA T, c : IF T.err THEN T
                                           ELSE IF T.st[c] /\ ~frozen[c] THEN Upd(c, T) ELSE T,
                            S, children[n])
             S2 == FoldLeft(LAMBDA T, p : Val(p, T), S1, Inputs(n))
         IN  IF S2.err THEN S2
             ELSE LET v == Apply(fsym[n], [i \in DOMAIN Inputs(n) |-> S2.ca[Inputs(n)[i]]])
                  IN IF v = Raise THEN [S2 EXCEPT !.err = TRUE, !.calls = Append(@, <<n, "raise">>)]
                     ELSE [S2 EXCEPT !.calls = Append(@, <<n, "ok">>), !.ca[n] = v,
                                     !.st[n] = IF "update_keeps_stale" \in Faults THEN TRUE ELSE FALSE]
    [] kind[n] = "alias" ->
         LET S1 == Val(children[n][1], S)
         IN IF S1.err THEN S1 ELSE [S1 EXCEPT !.ca[n] = S1.ca[children[n][1]], !.st[n] = FALSE]
    [] kind[n] = "tuple" ->
         LET S1 == FoldLeft(LAMBDA T, c : Val(c, T), S, children[n])
         IN IF S1.err THEN S1
            ELSE [S1 EXCEPT !.ca[n] = <<"tup", [i \in DOMAIN children[n] |-> S1.ca[children[n][i]]]>>,
                            !.st[n] = FALSE]
    [] kind[n] = "fallback" ->
         \* try the alternatives in order; an exception is swallowed, its side effects are not
         LET R == FoldLeft(LAMBDA T, c :
                             IF T.done THEN T
                             ELSE LET S1 == Val(c, [T.S EXCEPT !.err = FALSE])
                                  IN IF S1.err THEN [done |-> FALSE, S |-> S1, v |-> None, k |-> T.k + 1]
                                     ELSE [done |-> TRUE, S |-> S1, v |-> S1.ca[c], k |-> T.k],
                           [done |-> FALSE, S |-> S, v |-> None, k |-> 1], children[n])
         IN IF R.done THEN [R.S EXCEPT !.ca[n] = R.v, !.st[n] = FALSE, !.err = FALSE, !.fb = IF R.k > 1 THEN @ \cup {n} ELSE @ \ {n}]
            ELSE [R.S EXCEPT !.err = TRUE]
    [] kind[n] \in {"param", "empty"} -> [S EXCEPT !.st[n] = FALSE]      \* NodeBase.update
    [] OTHER -> S

(* Initial states: every catalogue shape, cold (as constructed) and warm (every node read once, *)
(* n1..n5 in order, exceptions swallowed) -- the warm start puts "a value was cached earlier"  *)
(* within reach of short histories.                                                            *)
S0(st, ca) == [st |-> st, ca |-> ca, calls |-> <<>>, err |-> FALSE, fb |-> {}]
Init ==
  /\ shape \in [id : ShapeIds, warm : BOOLEAN]
  /\ LET sh == Shape(shape.id) IN
       /\ kind = sh.kind /\ children = sh.children /\ params = sh.params /\ fsym = sh.fsym
       /\ parents = [n \in Nodes |-> {p \in Nodes : n \in Range(sh.children[p])}]
       /\ frozen = [n \in Nodes |-> FALSE]
       /\ snap = [n \in Nodes |-> None]
       \* constructors: Parameter fresh; Function/Alias/Tuple/Fallback/Empty stale
       /\ LET st0 == [n \in Nodes |-> sh.kind[n] \in {"func", "alias", "tuple", "fallback", "empty"}]
              ca0 == [n \in Nodes |-> IF sh.kind[n] = "param" THEN Leaf("0") ELSE None]
              W == FoldLeft(LAMBDA T, n : IF sh.kind[n] = "none" THEN T ELSE Val(n, [T EXCEPT !.err = FALSE]),
                            S0(st0, ca0), NodeSeq)
          IN IF shape.warm
             THEN /\ stale = W.st /\ cache = W.ca /\ fbFailed = W.fb
                  /\ touched = [n \in Nodes |-> Computed(sh.kind[n]) /\ ~(<<n, "ok">> \in Range(W.calls))]
             ELSE /\ stale = st0 /\ cache = ca0 /\ fbFailed = {}
                  /\ touched = [n \in Nodes |-> Computed(sh.kind[n])]
  /\ act = [name |-> "Init"]
  /\ obs = [kind |-> "none"]

(* What the property promises: the definition evaluated on the current inputs. *)
RECURSIVE Ideal(_)
Ideal(n) ==
  IF frozen[n] /\ kind[n] # "empty" THEN snap[n]
  ELSE CASE kind[n] = "param" -> cache[n]
         [] kind[n] = "func" ->
              LET args == [i \in DOMAIN Inputs(n) |-> Ideal(Inputs(n)[i])]
              IN IF \E i \in DOMAIN args : args[i] = Raise THEN Raise ELSE Apply(fsym[n], args)
         [] kind[n] = "alias" -> Ideal(children[n][1])
         [] kind[n] = "tuple" ->
              LET args == [i \in DOMAIN children[n] |-> Ideal(children[n][i])]
              IN IF \E i \in DOMAIN args : args[i] = Raise THEN Raise ELSE <<"tup", args>>
         [] kind[n] = "fallback" ->
              LET ok == {i \in DOMAIN children[n] : Ideal(children[n][i]) # Raise}
              IN IF ok = {} THEN Raise
                 ELSE Ideal(children[n][CHOOSE i \in ok : \A j \in ok : i <= j])
         [] OTHER -> Raise

Live == {n \in Nodes : kind[n] # "none"}

-----------------------------------------------------------------------------
(* Actions *)
(* The depth bound is an enabling condition of every action (not a CONSTRAINT), so that TLC never   *)
(* generates, and never re-checks, states beyond the bound, and -coverage still counts per action.  *)
Bounded(name) == TLCGet("level") <= MaxDepth /\ name \notin Off

SetValue(p, v) ==                             \* ValueNode.value setter on a Parameter
  /\ Bounded("SetValue")
  /\ kind[p] = "param" /\ v \in Vals
  /\ p # "n5" \/ parents[p] # {}               \* the spare parameter matters only once attached
  /\ cache' = [cache EXCEPT ![p] = Leaf(v)]
  /\ snap' = [snap EXCEPT ![p] = IF frozen[p] THEN Leaf(v) ELSE @]     \* explicit assignment overrides
  /\ stale' = IF "set_no_notify" \in Faults THEN stale ELSE MarkFrom(parents[p], stale)
  /\ touched' = TouchDeps({p}, children)
  /\ act' = [name |-> "SetValue", n |-> p, v |-> v] /\ obs' = [kind |-> "none"]
  /\ UNCHANGED <<fbFailed, shape, kind, children, params, fsym, parents, frozen>>

SetValueRejected(n) ==                        \* Alias / Function / Empty refuse assignment
  /\ Bounded("SetValueRejected") /\ "rejects" \notin Off
  /\ kind[n] \in {"func", "alias", "empty"}
  /\ act' = [name |-> "SetValue", n |-> n, v |-> 1] /\ obs' = [kind |-> "reject"]
  /\ UNCHANGED <<fbFailed, shape, kind, children, params, fsym, parents, stale, frozen, cache, snap, touched>>

Read(n) ==
  /\ Bounded("Read")
  /\ n \in Live
  /\ n # "n5" \/ parents[n] # {}
  /\ LET S == Val(n, [S0(stale, cache) EXCEPT !.fb = fbFailed]) IN
       /\ stale' = S.st /\ cache' = S.ca /\ fbFailed' = S.fb
       /\ obs' = IF S.err THEN [kind |-> "raise", calls |-> S.calls]
                 ELSE [kind |-> "value", value |-> S.ca[n], calls |-> S.calls]
       \* a function that completed its evaluation has consumed the pending assignments
       /\ touched' = [m \in Nodes |-> touched[m] /\ <<m, "ok">> \notin Range(S.calls)]
  /\ act' = [name |-> "Read", n |-> n]
  /\ UNCHANGED <<shape, kind, children, params, fsym, parents, frozen, snap>>

MarkForUpdate(n) ==
  /\ Bounded("MarkForUpdate")
  /\ n \in Live /\ kind[n] # "param"         \* Parameter.mark_for_update is a no-op
  /\ stale' = MarkFrom({n}, stale)
  /\ touched' = Touch({n}, children)
  /\ act' = [name |-> "Mark", n |-> n] /\ obs' = [kind |-> "none"]
  /\ UNCHANGED <<fbFailed, shape, kind, children, params, fsym, parents, frozen, cache, snap>>

Freeze(n) ==
  /\ Bounded("Freeze")
  /\ n \in Live /\ ~frozen[n] /\ kind[n] # "empty" /\ n # "n5"
  \* freezing a STALE node is excluded: "the value it had when it was frozen" is ambiguous there
  \* (last cached value vs. what a read would have returned); kafe2 itself always updates first.
  /\ ~stale[n]
  /\ frozen' = [frozen EXCEPT ![n] = TRUE]
  /\ snap' = [snap EXCEPT ![n] = cache[n]]
  /\ act' = [name |-> "Freeze", n |-> n] /\ obs' = [kind |-> "none"]
  /\ UNCHANGED <<fbFailed, shape, kind, children, params, fsym, parents, stale, cache, touched>>

Unfreeze(n) ==
  /\ Bounded("Unfreeze")
  /\ n \in Live /\ frozen[n]
  /\ frozen' = [frozen EXCEPT ![n] = FALSE]
  \* _frozen = False; _stale = True; notify_parents()      (the notification is the repair of KF-C04-2)
  /\ stale' = IF "unfreeze_no_notify" \in Faults THEN [stale EXCEPT ![n] = TRUE]
              ELSE LET st1 == [stale EXCEPT ![n] = TRUE] IN MarkFromP(parents[n], st1, parents)
  /\ touched' = Touch({n}, children)
  /\ act' = [name |-> "Unfreeze", n |-> n] /\ obs' = [kind |-> "none"]
  /\ UNCHANGED <<fbFailed, shape, kind, children, params, fsym, parents, cache, snap>>

SetFunc(n, g) ==                              \* Function.func setter
  /\ Bounded("SetFunc")
  /\ kind[n] = "func" /\ g \in FSyms /\ g # fsym[n]
  /\ fsym' = [fsym EXCEPT ![n] = g]
  /\ stale' = IF "setfunc_no_notify" \in Faults THEN [stale EXCEPT ![n] = TRUE]
              ELSE LET st1 == [stale EXCEPT ![n] = TRUE] IN MarkFromP(parents[n], st1, parents)
  /\ touched' = Touch({n}, children)
  /\ act' = [name |-> "SetFunc", n |-> n, g |-> g] /\ obs' = [kind |-> "none"]
  /\ UNCHANGED <<fbFailed, shape, kind, children, params, parents, frozen, cache, snap>>

(* Nexus.add_dependency(name = n, depends_on = m): n.add_child(m), then the cycle check.  *)
(* m is an ancestor of n (or n itself)  <=>  the new edge closes a cycle.                  *)
Ancestors(n) == DependentsOf({n}, {}, children)
AddDependency(n, m) ==
  /\ Bounded("AddDependency")
  /\ n \in Live /\ m \in Live
  /\ kind[n] # "param"
  /\ kind[n] = "func" \/ m = n \/ m \in Ancestors(n)     \* hidden inputs are meaningful for functions only
  /\ (m = n \/ m \in Ancestors(n)) => "rejects" \notin Off
  /\ IF m = n \/ m \in Ancestors(n)
     THEN /\ obs' = [kind |-> "reject"]
          /\ IF "cycle_edge_left_in" \in Faults
             THEN /\ children' = [children EXCEPT ![n] = Append(@, m)]
                  /\ parents' = [parents EXCEPT ![m] = @ \cup {n}]
             ELSE UNCHANGED <<children, parents>>
          \* add_child has already marked n before the check raises; the rollback keeps the mark
          /\ stale' = MarkFrom({n}, stale)
          /\ touched' = Touch({n}, children)
     ELSE /\ obs' = [kind |-> "none"]
          /\ children' = [children EXCEPT ![n] = Append(@, m)]
          /\ parents' = [parents EXCEPT ![m] = @ \cup {n}]
          /\ stale' = MarkFrom({n}, stale)
          /\ touched' = Touch({n}, children')
  /\ act' = [name |-> "AddDependency", n |-> n, m |-> m]
  /\ UNCHANGED <<fbFailed, shape, kind, params, fsym, frozen, cache, snap>>

(* Nexus.add_dependency(name = n, depends_on = (m1, m2)): all of them or none *)
AddDependencyPair(n, m1, m2) ==
  /\ Bounded("AddDependencyPair")
  /\ n \in Live /\ m1 \in Live /\ m2 \in Live /\ m1 # m2 /\ kind[n] = "func"
  /\ m1 = "n5" \/ m2 = "n5"                  \* one of the two is the spare parameter (keeps the branching small)
  /\ LET bad(m) == m = n \/ m \in Ancestors(n) IN
     IF bad(m1) \/ bad(m2)
     THEN /\ "rejects" \notin Off
          /\ obs' = [kind |-> "reject"]
          /\ IF "partial_rollback" \in Faults /\ ~bad(m1)
             THEN /\ children' = [children EXCEPT ![n] = Append(@, m1)]
                  /\ parents' = [parents EXCEPT ![m1] = @ \cup {n}]
             ELSE UNCHANGED <<children, parents>>
          /\ stale' = MarkFrom({n}, stale)
          /\ touched' = Touch({n}, children)
     ELSE /\ obs' = [kind |-> "none"]
          /\ children' = [children EXCEPT ![n] = @ \o <<m1, m2>>]
          /\ parents' = [parents EXCEPT ![m1] = @ \cup {n}, ![m2] = @ \cup {n}]
          /\ stale' = MarkFrom({n}, stale)
          /\ touched' = Touch({n}, children')
  /\ act' = [name |-> "AddDependencyPair", n |-> n, m1 |-> m1, m2 |-> m2]
  /\ UNCHANGED <<fbFailed, shape, kind, params, fsym, frozen, cache, snap>>

AddDependencyUnknown(n) ==                    \* unknown node name: ValueError, nothing changes
  /\ Bounded("AddDependencyUnknown") /\ "rejects" \notin Off
  /\ n \in Live
  /\ act' = [name |-> "AddDependencyUnknown", n |-> n] /\ obs' = [kind |-> "reject"]
  /\ UNCHANGED <<fbFailed, shape, kind, children, params, fsym, parents, stale, frozen, cache, snap, touched>>

(* NodeBase.replace_child / Function.replace_child: every occurrence, order kept, parameters follow *)
Subst(s, a, b) == [i \in DOMAIN s |-> IF s[i] = a THEN b ELSE s[i]]
ReplaceChild(n, cur, new) ==
  /\ Bounded("ReplaceChild")
  /\ n \in Live /\ cur \in Live /\ new \in Live /\ cur # new /\ new # n
  /\ kind[n] \in {"func", "tuple", "fallback", "alias"}
  /\ new \notin Ancestors(n)                  \* node-level API has no cycle check: stay acyclic
  /\ cur \in Range(children[n]) \/ (cur = "n5" /\ new = "n1" /\ "rejects" \notin Off)   \* one rejected variant per node
  /\ IF cur \notin Range(children[n])
     THEN /\ obs' = [kind |-> "reject"]
          /\ UNCHANGED <<children, params, parents, stale, touched>>
     ELSE /\ obs' = [kind |-> "none"]
          /\ children' = [children EXCEPT ![n] = Subst(@, cur, new)]
          /\ params' = [params EXCEPT ![n] = Subst(@, cur, new)]
          /\ parents' = [parents EXCEPT ![new] = @ \cup {n}, ![cur] = @ \ {n}]
          /\ stale' = MarkFrom({n}, stale)
          /\ touched' = Touch({n}, children')
  /\ act' = [name |-> "ReplaceChild", n |-> n, cur |-> cur, new |-> new]
  /\ UNCHANGED <<fbFailed, shape, kind, fsym, frozen, cache, snap>>

(* NodeBase.remove_child on a dependency-only child (a child that is not a function parameter) *)
RemoveDependency(n, m) ==
  /\ Bounded("RemoveDependency")
  /\ n \in Live /\ m \in Live /\ kind[n] = "func"
  /\ m \notin Range(params[n])
  /\ m \in Range(children[n]) \/ (m = "n5" /\ "rejects" \notin Off)     \* one rejected variant per node
  /\ IF m \notin Range(children[n])
     THEN /\ obs' = [kind |-> "reject"] /\ UNCHANGED <<children, parents, stale, touched>>
     ELSE /\ obs' = [kind |-> "none"]
          /\ children' = [children EXCEPT ![n] = SelectSeq(@, LAMBDA c : c # m)]
          /\ parents' = [parents EXCEPT ![m] = @ \ {n}]
          /\ stale' = MarkFrom({n}, stale)
          /\ touched' = Touch({n}, children)
  /\ act' = [name |-> "RemoveDependency", n |-> n, m |-> m]
  /\ UNCHANGED <<fbFailed, shape, kind, params, fsym, frozen, cache, snap>>

(* Tuple.__setitem__(i, item) *)
TupleSetItem(t, i, m) ==
  /\ Bounded("TupleSetItem")
  /\ kind[t] = "tuple" /\ i \in DOMAIN children[t] /\ m \in Live /\ m # t
  /\ m \notin Ancestors(t) /\ children[t][i] # m
  /\ LET old == children[t][i]
         ch1 == [children EXCEPT ![t][i] = m]
         par1 == IF "setitem_no_register" \in Faults THEN parents
                 ELSE [parents EXCEPT ![m] = @ \cup {t},
                                      ![old] = IF old \in Range(ch1[t]) THEN @ ELSE @ \ {t}]
     IN /\ children' = ch1
        /\ parents' = par1
        /\ stale' = IF "setitem_no_register" \in Faults THEN stale ELSE MarkFrom({t}, stale)
        /\ touched' = Touch({t}, ch1)
  /\ act' = [name |-> "TupleSetItem", n |-> t, i |-> i, m |-> m] /\ obs' = [kind |-> "none"]
  /\ UNCHANGED <<fbFailed, shape, kind, params, fsym, frozen, cache, snap>>

(* NodeBase.replace(other) with other_children = True: every parent swaps the child *)
Replace(n, other) ==
  /\ Bounded("Replace")
  /\ n \in Live /\ other \in Live /\ n # other /\ kind[other] = "param" /\ kind[n] # "empty"
  /\ parents[n] # {}
  /\ \A p \in parents[n] : other \notin Ancestors(p) /\ other # p
  /\ children' = [p \in Nodes |-> IF p \in parents[n] THEN Subst(children[p], n, other) ELSE children[p]]
  /\ params'   = [p \in Nodes |-> IF p \in parents[n] THEN Subst(params[p], n, other) ELSE params[p]]
  /\ parents' = [parents EXCEPT ![other] = @ \cup parents[n], ![n] = {}]
  /\ stale' = MarkFrom(parents[n], stale)
  /\ touched' = Touch(parents[n], children')
  /\ act' = [name |-> "Replace", n |-> n, m |-> other] /\ obs' = [kind |-> "none"]
  /\ UNCHANGED <<fbFailed, shape, kind, fsym, frozen, cache, snap>>

Next ==
  \/ \E p \in Nodes, v \in Vals : SetValue(p, v)
  \/ \E n \in Nodes : SetValueRejected(n)
  \/ \E n \in Nodes : Read(n)
  \/ \E n \in Nodes : MarkForUpdate(n)
  \/ \E n \in Nodes : Freeze(n)
  \/ \E n \in Nodes : Unfreeze(n)
  \/ \E n \in Nodes, g \in FSyms : SetFunc(n, g)
  \/ \E n, m \in Nodes : AddDependency(n, m)
  \/ \E n, m1, m2 \in Nodes : AddDependencyPair(n, m1, m2)
  \/ \E n \in Nodes : AddDependencyUnknown(n)
  \/ \E n, c, m \in Nodes : ReplaceChild(n, c, m)
  \/ \E n, m \in Nodes : RemoveDependency(n, m)
  \/ \E t, m \in Nodes, i \in 1..2 : TupleSetItem(t, i, m)
  \/ \E n, m \in Nodes : Replace(n, m)

Spec == Init /\ [][Next]_vars

-----------------------------------------------------------------------------
(* Properties (C04, graph part of C19) *)

(* KNOWN FINDING KF-C04-FALLBACK (open).  A Fallback whose earlier alternative raised becomes fresh *)
(* while that alternative stays stale; mark_for_update stops at stale nodes, so a later assignment  *)
(* to the failing alternative's input never reaches the Fallback.  The mechanism above reproduces   *)
(* it; the invariants carry a carve-out for exactly the nodes that (transitively) read such a      *)
(* fallback.                                                                                        *)
RECURSIVE InputsClosure(_, _)
InputsClosure(S, acc) ==
  LET new == UNION {Range(children[n]) : n \in S \cup acc} \ acc
  IN IF new = {} THEN acc ELSE InputsClosure(S, acc \cup new)
PinnedFallback(m) == kind[m] = "fallback" /\ m \in fbFailed /\ ~stale[m]
KF_Fallback(n) == "no_kf_carveout" \notin Faults /\ \E m \in InputsClosure({n}, {n}) : PinnedFallback(m)

IdealOut(n) == Ideal(n)          \* exported with every Read edge

ReadCorrect ==          \* a read returns the definition evaluated on the current inputs
  (act.name = "Read" /\ ~KF_Fallback(act.n)) =>
     IF obs.kind = "value" THEN obs.value = Ideal(act.n) ELSE Ideal(act.n) = Raise

AtMostOncePerRead ==
  act.name = "Read" => \A i, j \in DOMAIN obs.calls :
                          (i # j /\ obs.calls[i][2] = "ok") => obs.calls[i] # obs.calls[j]

NoSpuriousRecompute ==  \* [] [ Read => every function called had a pending input change ]_vars
  [][\A n \in Nodes : (act'.name = "Read" /\ \E r \in {"ok", "raise"} : <<n, r>> \in Range(obs'.calls)) => touched[n]]_vars

FrozenKeepsSnap == \A n \in Live : frozen[n] => cache[n] = snap[n]

(* The mechanism's inductive lemma: a fresh, non-frozen computed node caches its ideal value. *)
FreshIsIdeal == \A n \in Live : (Computed(kind[n]) /\ ~stale[n] /\ ~frozen[n] /\ ~KF_Fallback(n)) => cache[n] = Ideal(n)

(* ... and staleness is upward closed through non-frozen parents. *)
StaleUpwardClosed ==
  \A n \in Live : (stale[n] /\ ~frozen[n] /\ Computed(kind[n])) =>
      \A p \in parents[n] : (n \in Range(children[p]) /\ kind[p] \in {"func", "alias", "tuple"}) => (stale[p] \/ frozen[p])

ParentsCoverChildren == \A p \in Live : \A c \in Range(children[p]) : p \in parents[c]

Acyclic == \A n \in Live : n \notin Ancestors(n)

RejectLeavesUnchanged ==   \* a rejected call changes neither the definition nor any later read
  [][obs'.kind = "reject" => UNCHANGED <<kind, children, params, fsym, parents, frozen, cache, snap>>]_vars

DepthBound == TLCGet("level") <= MaxDepth

-----------------------------------------------------------------------------
(* Edge output for the conformance replay lives in GenNexus.tla. *)
StKey == <<shape, kind, children, params, fsym, parents, stale, frozen, cache, snap, touched, fbFailed>>
View == StKey
=============================================================================
