----------------------------- MODULE GenFormat -----------------------------
EXTENDS Format
VARIABLE hist
GInit == Init /\ hist = <<job>>
GNext == Next /\ hist' = Append(hist, act')
GSpec == GInit /\ [][GNext]_<<vars, hist>>
PathOut == PrintT(ToJson([h |-> hist, a |-> act', o |-> obs']))
StateOut == PrintT(ToJson([sh |-> hist]))
=============================================================================
