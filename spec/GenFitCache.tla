---------------------------- MODULE GenFitCache ----------------------------
(* Path-tree generator for FitCache (see GenNexus.tla for the scheme). *)
EXTENDS FitCache
VARIABLE hist
GInit == Init /\ hist = <<act>>
GNext == Next /\ hist' = Append(hist, act')
GSpec == GInit /\ [][GNext]_<<vars, hist>>
PathOut == PrintT(ToJson([h |-> hist, a |-> act', o |-> obs']))
StateOut ==
  PrintT(ToJson([sh |-> hist, ndf |-> IdealNdf, did_fit |-> didFit, has_errors |-> HasErrors, fixed |-> fixed, limited |-> limited,
                 posdef |-> WellPosed, cost_node |-> costNode, on |-> On, present |-> Present,
                 cons |-> cons, data_set |-> dataSet, implicit |-> implicitNoErr, own_src |-> ownSrc, diagonal |-> IdealDiagonal]))
=============================================================================
