----------------------------- MODULE GenNexus -----------------------------
(* Path-tree generator for the conformance replay: Nexus plus the history of actions, so that every   *)
(* distinct HISTORY (not only every distinct state) up to the bound is printed and replayed.          *)
(* Two kinds of records are printed: one per edge (ACTION_CONSTRAINT PathOut: history of the source,  *)
(* action, observation) and one per state (CONSTRAINT StateOut: history, ideal value of every node,   *)
(* flags).  State-level output is unprimed on purpose: TLC evaluates primed recursive operators about *)
(* ten times slower.  The harness joins the two by history.                                           *)
EXTENDS Nexus
VARIABLE hist
GInit == Init /\ hist = <<[name |-> "Init", shape |-> shape]>>
GNext == Next /\ hist' = Append(hist, act')
GSpec == GInit /\ [][GNext]_<<vars, hist>>
PathOut ==
  PrintT(ToJson([h |-> hist, a |-> act', o |-> obs', tb |-> {n \in Nodes : touched[n]}]))
StateOut ==
  PrintT(ToJson([sh |-> hist,
                 init |-> IF Len(hist) = 1
                          THEN [kind |-> kind, children |-> children, params |-> params, fsym |-> fsym]
                          ELSE <<>>,
                 idealAll |-> [n \in Nodes |-> IF kind[n] = "none" THEN None ELSE Ideal(n)],
                 kfAll |-> {n \in Nodes : kind[n] # "none" /\ KF_Fallback(n)},
                 stale |-> {n \in Nodes : stale[n]}, frozen |-> {n \in Nodes : frozen[n]}]))
=============================================================================
