----------------------------- MODULE FixedIndex -----------------------------
(***************************************************************************)
(* Index bookkeeping between the FULL parameter vector / matrix and the     *)
(* FREE one (C07: zero rows and columns for fixed parameters; C15: any      *)
(* subset of fixed parameters in any position).  Transcribed from           *)
(*   MinimizerBase._remove_zeroes_for_fixed / _fill_in_zeroes_for_fixed     *)
(*   MinimizerScipyOptimize.minimize (_position_indices, _dyn_and_fixed)    *)
(*   MinimizerIMinuit._calculate_asymmetric_parameter_errors (free index)   *)
(*   XYFit.error_band (boolean mask cut)                                    *)
(* One state per (N, fixed subset); the invariants are the round trips.     *)
(***************************************************************************)
EXTENDS Naturals, Integers, Sequences, FiniteSets, SequencesExt, TLC, Json

CONSTANTS MaxN, Faults
VARIABLES n, fixed, act, obs
vars == <<n, fixed, act, obs>>

Full == 1..n
Free == Full \ fixed
FixedSeq == SetToSortSeq(fixed, <)                      \* [_i for _i, name in enumerate(names) if is_fixed(name)]: ascending
FreeSeq == SetToSortSeq(Free, <)

M(i, j) == 10 * i + j                                    \* a full matrix with distinct entries
Mat == [i \in Full |-> [j \in Full |-> M(i, j)]]

(* np.delete(np.delete(matrix, idx, axis=0), idx, axis=1) *)
RemoveFixed(mat) == [a \in 1..Len(FreeSeq) |-> [b \in 1..Len(FreeSeq) |-> mat[FreeSeq[a]][FreeSeq[b]]]]

(* np.insert(vector, k, 0) on a sequence: position k (1-based here) *)
InsertAtPos(s, k, v) == SubSeq(s, 1, k - 1) \o <<v>> \o SubSeq(s, k, Len(s))
(* for _id in fixed indices: mat = insert zero row at _id, zero column at _id   (in the order the list has) *)
InsertRowCol(mat, k) ==
  LET withRow == InsertAtPos(mat, k, [c \in 1..(IF Len(mat) = 0 THEN 0 ELSE Len(mat[1])) |-> 0])
  IN [r \in 1..Len(withRow) |-> InsertAtPos(withRow[r], k, 0)]
Order == IF "descending_insert" \in Faults THEN Reverse(FixedSeq) ELSE FixedSeq
FillIn(sub) == FoldLeft(LAMBDA m, k : InsertRowCol(m, k), sub, Order)

(* scipy: the packed argument vector holds the free parameters in order; _position_indices[i] = i - (number of fixed before i) for free i *)
Val(i) == 100 + i                                         \* distinct full values
Packed == [a \in 1..Len(FreeSeq) |-> Val(FreeSeq[a])]
PosIndex(i) == IF i \in fixed THEN i ELSE i - Cardinality({k \in fixed : k < i}) + (IF "position_off_by_one" \in Faults THEN 1 ELSE 0)
Unpack(args) == [i \in Full |-> IF i \in fixed THEN Val(i) ELSE args[PosIndex(i)]]

(* iminuit: MINOS results are indexed by the position among the FREE parameters *)
FreeIndex(i) == CHOOSE a \in 1..Len(FreeSeq) : FreeSeq[a] = i

Init == n \in 1..MaxN /\ fixed \in SUBSET (1..n) /\ act = [name |-> "Init"] /\ obs = [kind |-> "none"]
Next == UNCHANGED vars
Spec == Init /\ [][Next]_vars

RoundTripMatrix ==       \* fill(remove(M)) = M with the rows and columns of fixed parameters zeroed
  Free # {} => FillIn(RemoveFixed(Mat)) = [i \in Full |-> [j \in Full |-> IF i \in fixed \/ j \in fixed THEN 0 ELSE M(i, j)]]
RoundTripVector == Free # {} => Unpack(Packed) = [i \in Full |-> Val(i)]
FreeIndexIsPosition == \A i \in Free : FreeSeq[FreeIndex(i)] = i /\ FreeIndex(i) = i - Cardinality({k \in fixed : k < i})
MaskCut == RemoveFixed(Mat) = [a \in 1..Len(FreeSeq) |-> [b \in 1..Len(FreeSeq) |-> M(FreeSeq[a], FreeSeq[b])]]
=============================================================================
