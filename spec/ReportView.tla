----------------------------- MODULE ReportView -----------------------------
(***************************************************************************)
(* What the textual outputs of a fit show (C17, second sentence):           *)
(* FitBase.report / _report_fit_results, get_result_dict, the preface       *)
(* comment written by FitYamlWriter, and the parameter formatters           *)
(* (value / error / fixed copies) that report() refreshes before printing.  *)
(*                                                                          *)
(* Values are abstract versions: 0 = default, 1, 2 = set by the user,       *)
(* 3 = found by the last fit.  "results" = the fit has run and nothing was  *)
(* changed since (uncertainties, correlations are available).               *)
(***************************************************************************)
EXTENDS Naturals, Sequences, FiniteSets, TLC, Json

CONSTANTS NPars, MaxDepth, Off, Faults

Pars == 1..NPars
VARIABLES val,       \* parameter -> value version held by the fit
          fixed,     \* set of fixed parameters
          results,   \* the fit holds valid results (did_fit and nothing changed since)
          fmt,       \* parameter -> [val, err, fixed]: the copies held by the parameter formatters
          act, obs
vars == <<val, fixed, results, fmt, act, obs>>

Bounded(name) == TLCGet("level") <= MaxDepth /\ name \notin Off
Held == [p \in Pars |-> [val |-> val[p], err |-> results /\ p \notin fixed, fixed |-> p \in fixed]]     \* what the fit holds right now

Init ==
  /\ val = [p \in Pars |-> 0] /\ fixed = {} /\ results = FALSE
  /\ fmt = [p \in Pars |-> [val |-> 0, err |-> FALSE, fixed |-> FALSE]]
  /\ act = [name |-> "Init"] /\ obs = [kind |-> "none"]

SetPar(p, v) ==
  /\ Bounded("SetPar") /\ p \in Pars /\ v \in {1, 2} /\ val[p] # v
  /\ val' = [val EXCEPT ![p] = v] /\ results' = FALSE
  /\ act' = [name |-> "SetPar", p |-> p, v |-> v] /\ obs' = [kind |-> "none"]
  /\ UNCHANGED <<fixed, fmt>>
Fix(p) ==
  /\ Bounded("Fix") /\ p \in Pars \ fixed /\ Cardinality(fixed) + 1 < NPars
  /\ fixed' = fixed \cup {p} /\ results' = results       \* fixing / releasing does not reset did_fit in the code
  /\ fmt' = IF "fixed_flag_on_print" \in Faults THEN fmt ELSE [fmt EXCEPT ![p].fixed = TRUE]     \* fix_parameter marks the formatter at once
  /\ act' = [name |-> "Fix", p |-> p] /\ obs' = [kind |-> "none"]
  /\ UNCHANGED val
Release(p) ==
  /\ Bounded("Release") /\ p \in fixed
  /\ fixed' = fixed \ {p} /\ results' = results
  /\ fmt' = [fmt EXCEPT ![p].fixed = FALSE]
  /\ act' = [name |-> "Release", p |-> p] /\ obs' = [kind |-> "none"]
  /\ UNCHANGED val
AddError ==          \* any change of the uncertainty model invalidates the results
  /\ Bounded("AddError") /\ results
  /\ results' = FALSE
  /\ act' = [name |-> "AddError"] /\ obs' = [kind |-> "none"]
  /\ UNCHANGED <<val, fixed, fmt>>
DoFit ==
  /\ Bounded("DoFit") /\ ~results
  /\ val' = [p \in Pars |-> IF p \in fixed THEN val[p] ELSE 3] /\ results' = TRUE
  /\ act' = [name |-> "DoFit"] /\ obs' = [kind |-> "none"]
  /\ UNCHANGED <<fixed, fmt>>

(* report(): _update_parameter_formatters, then print the formatters; the other outputs read the fit directly *)
Show(kind) ==
  /\ Bounded("Show") /\ kind \in {"report", "report_asym", "result_dict", "preface"}
  /\ (kind = "report_asym" => results)           \* asymmetric uncertainties need a fit
  /\ LET fresh == [p \in Pars |-> [val |-> val[p], err |-> results /\ p \notin fixed, fixed |-> fmt[p].fixed]]
         upd == IF kind \in {"report", "report_asym"} /\ "print_without_refresh" \notin Faults THEN fresh ELSE fmt
     IN /\ fmt' = upd
        /\ obs' = [kind |-> "shown", pars |-> IF kind \in {"report", "report_asym"} THEN upd ELSE Held, warning |-> ~results]
  /\ act' = [name |-> "Show", kind |-> kind]
  /\ UNCHANGED <<val, fixed, results>>

Next ==
  \/ \E p \in Pars, v \in {1, 2} : SetPar(p, v)
  \/ \E p \in Pars : Fix(p) \/ Release(p)
  \/ AddError \/ DoFit
  \/ \E k \in {"report", "report_asym", "result_dict", "preface"} : Show(k)
Spec == Init /\ [][Next]_vars

-----------------------------------------------------------------------------
(* C17: every output lists what the fit object holds at that moment, fixed parameters marked as fixed *)
ShownIsCurrent == act.name = "Show" => (obs.pars = Held /\ obs.warning = ~results)
FixedMarked == act.name = "Show" => \A p \in Pars : (p \in fixed) <=> obs.pars[p].fixed
FormatterFixedFlagEager == \A p \in Pars : fmt[p].fixed <=> (p \in fixed)
=============================================================================
