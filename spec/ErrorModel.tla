----------------------------- MODULE ErrorModel -----------------------------
(***************************************************************************)
(* Uncertainty sources and containers, layers L1-L3 (C02; rejected calls:   *)
(* C19).  kafe2/core/error.py, kafe2/fit/*/container.py, */model.py.        *)
(*                                                                         *)
(* definition : stored values per axis (for models: parameters / x; for     *)
(*              histograms: all entries filled), the declared sources and   *)
(*              their enabled flags                                         *)
(* mechanism  : per source its reference mode (live callable / static copy) *)
(*              and the reference values its cached covariance was built    *)
(*              from; per container the cached total; for parametric models *)
(*              the stale flag and the values actually stored; for          *)
(*              histograms the entries not yet sorted into the bins         *)
(* Two points (N = 2).  A symmetric 2x2 matrix is <<a, b, d>>.  All numbers *)
(* are integers: sizes in tenths, correlation in halves, so a covariance    *)
(* entry carries the scale 200.                                             *)
(***************************************************************************)
EXTENDS Naturals, Integers, Sequences, FiniteSets, SequencesExt, TLC, Json

CONSTANTS Kind,          \* "indexed" | "xy" | "hist" | "indexedmodel" | "xymodel" | "histmodel"
          MaxSources, MaxDepth, Off, Faults

VARIABLES vals,      \* axis -> <<v1, v2>> : values stored in the container right now (mechanism for models/hist)
          pars,      \* models: parameter vector; hist: total counts incl. pending entries; others: unused <<0,0>>
          status,    \* source name -> "absent" | "on" | "off"
          ref,       \* source name -> <<"live">> | <<"static", v1, v2>>
          covSnap,   \* source name -> <<>> (no cached covariance) | <<v1, v2>> reference the cache was computed from
          total,     \* <<>> (no cached total) | axis -> matrix
          pmStale,   \* parametric models: stored values are out of date
          pending,   \* histogram: counts <<c1, c2>> filled but not yet sorted into the bins
          act, obs

vars == <<vals, pars, status, ref, covSnap, total, pmStale, pending, act, obs>>

IsModel == Kind \in {"indexedmodel", "xymodel", "histmodel"}
IsXY == Kind \in {"xy", "xymodel"}
Axes == IF IsXY THEN {"x", "y"} ELSE {"y"}

(* source catalogue *)
Src(axis, type, rel, s1, s2, corr, form) ==
  [axis |-> axis, type |-> type, rel |-> rel, s1 |-> s1, s2 |-> s2, corr |-> corr, form |-> form]
Cat ==
  [ s1 |-> Src("y", "simple", FALSE, 1, 1, 0, "-"),        \* add_error(0.1)
    s2 |-> Src("y", "simple", TRUE, 1, 2, 1, "-"),         \* add_error([0.1, 0.2], relative, correlation 0.5)
    s3 |-> Src("y", "matrix", TRUE, 2, 1, 1, "cov"),       \* add_matrix_error(cov, relative)
    s4 |-> Src("y", "matrix", FALSE, 3, 1, 1, "cor"),      \* add_matrix_error(cor, err_val = [0.3, 0.1])
    s5 |-> Src("x", "simple", TRUE, 1, 1, 2, "-"),         \* x axis, relative, fully correlated
    s6 |-> Src("x", "simple", FALSE, 2, 2, 0, "-") ]
Names == {n \in DOMAIN Cat : Cat[n].axis \in Axes}

(* value catalogues *)
YChoices == {<<1, 2>>, <<-2, 4>>}
XChoices == {<<1, 2>>, <<2, 4>>}
ParChoices == IF Kind = "xymodel" THEN {<<1, 0>>, <<-2, 0>>} ELSE {<<1, 2>>, <<-2, 4>>, <<3, 1>>}
ModelVals(p, x) ==            \* xymodel: y = a * x ; indexedmodel / histmodel: bin or index i holds parameter i
  IF Kind = "xymodel" THEN <<p[1] * x[1], p[1] * x[2]>> ELSE p

Live == <<"live">>
Static(v) == <<"static", v[1], v[2]>>
NoSnap == <<>>
NoTotal == [ax \in Axes |-> <<>>]        \* no cached total
HasTotal == \A ax \in Axes : total[ax] # <<>>

(* covariance of one source for reference values r (scale 200) *)
Sigma(n, r) == LET c == Cat[n] IN IF c.rel THEN <<c.s1 * r[1], c.s2 * r[2]>> ELSE <<c.s1, c.s2>>
CovOf(n, r) == LET s == Sigma(n, r) IN <<2 * s[1] * s[1], s[1] * s[2] * Cat[n].corr, 2 * s[2] * s[2]>>
Zero3 == <<0, 0, 0>>
Add3(a, b) == <<a[1] + b[1], a[2] + b[2], a[3] + b[3]>>

(* the definition: what the container's values ARE right now *)
TrueVals(ax) ==
  IF ax = "x" THEN vals["x"]
  ELSE IF IsModel THEN ModelVals(pars, IF IsXY THEN vals["x"] ELSE <<0, 0>>)
  ELSE IF Kind = "hist" THEN pars
  ELSE vals["y"]

OnNames(ax) == {n \in Names : status[n] = "on" /\ Cat[n].axis = ax}
RECURSIVE SumCov(_, _)
SumCov(S, f) == IF S = {} THEN Zero3 ELSE LET n == CHOOSE x \in S : TRUE IN Add3(f[n], SumCov(S \ {n}, f))
IdealCov(ax) == SumCov(OnNames(ax), [n \in Names |-> CovOf(n, TrueVals(ax))])

-----------------------------------------------------------------------------
Bounded(name) == TLCGet("level") <= MaxDepth /\ name \notin Off

InitVals ==
  IF IsXY THEN [a \in {"x", "y"} |-> IF a = "x" THEN <<1, 2>> ELSE <<1, 2>>] ELSE [a \in {"y"} |-> <<1, 2>>]
Init ==
  /\ pars = IF Kind = "xymodel" THEN <<1, 0>> ELSE <<1, 2>>
  /\ vals = InitVals               \* models: constructed with these parameters, so stored = model values
  /\ status = [n \in Names |-> "absent"]
  /\ ref = [n \in Names |-> Live]
  /\ covSnap = [n \in Names |-> NoSnap]
  /\ total = NoTotal
  /\ pmStale = FALSE
  /\ pending = <<0, 0>>
  /\ act = [name |-> "Init", kind |-> Kind] /\ obs = [kind |-> "none"]

-----------------------------------------------------------------------------
(* mechanism helpers *)

RefVals(n, vs) == IF ref[n] = Live THEN vs[Cat[n].axis] ELSE <<ref[n][2], ref[n][3]>>

(* set every source on axis `ax` in S to reference mode m and drop its cached covariance *)
Repoint(rf, cs, S, m) ==
  [rf2 |-> [n \in Names |-> IF n \in S THEN m[n] ELSE rf[n]],
   cs2 |-> [n \in Names |-> IF n \in S THEN NoSnap ELSE cs[n]]]

Present == {n \in Names : status[n] # "absent"}
OnAxis(ax) == {n \in Present : Cat[n].axis = ax}

(* histogram: sort pending entries into the bins (reading `data`, and -- after the repair -- the reference) *)
Processed(vs, pd) == [vs EXCEPT !["y"] = <<vs["y"][1] + pd[1], vs["y"][2] + pd[2]>>]

(* parametric model: _recalculate *)
Recalc(vs) == [vs EXCEPT !["y"] = ModelVals(pars, IF IsXY THEN vs["x"] ELSE <<0, 0>>)]
RecalcRepoint(vs2, rf, cs) ==
  \* indexed model: IndexedContainer.data.fset re-points every source to the (aliased, live) array
  \* xy model: XYContainer.y.fset re-points the y sources to a static copy
  \* hist model: writes the bins in place; after the repair re-points the (live) reference
  IF Kind = "xymodel"
  THEN Repoint(rf, cs, OnAxis("y"), [n \in Names |-> Static(vs2["y"])])
  ELSE IF Kind = "histmodel" /\ "histmodel_no_repoint" \in Faults
  THEN [rf2 |-> rf, cs2 |-> cs]
  ELSE Repoint(rf, cs, OnAxis("y"), [n \in Names |-> Live])

(* compute the total (both axes at once, as the code does) from the sources; returns [tot, cs] *)
ComputeTotal(vs, rf, cs) ==
  LET snap(n) == IF Cat[n].rel /\ Cat[n].type = "simple"
                 THEN (IF cs[n] # NoSnap THEN cs[n]
                       ELSE IF rf[n] = Live THEN vs[Cat[n].axis] ELSE <<rf[n][2], rf[n][3]>>)
                 ELSE (IF rf[n] = Live THEN vs[Cat[n].axis] ELSE <<rf[n][2], rf[n][3]>>)
      on(ax) == {n \in Names : status[n] = "on" /\ Cat[n].axis = ax}
  IN [tot |-> [ax \in Axes |-> SumCov(on(ax), [n \in Names |-> CovOf(n, snap(n))])],
      cs |-> [n \in Names |-> IF status[n] = "on" /\ Cat[n].rel /\ Cat[n].type = "simple" THEN snap(n) ELSE cs[n]]]

-----------------------------------------------------------------------------
(* Actions *)

AddSource(n) ==
  /\ Bounded("AddSource") /\ n \in Names
  /\ IF status[n] # "absent"
     THEN /\ "rejects" \notin Off
          /\ obs' = [kind |-> "reject"] /\ UNCHANGED <<status, ref, covSnap, total>>     \* duplicate name
     ELSE /\ Cardinality(Present) < MaxSources
          /\ obs' = [kind |-> "none"]
          /\ status' = [status EXCEPT ![n] = "on"]
          /\ ref' = [ref EXCEPT ![n] = Live]
          /\ covSnap' = [covSnap EXCEPT ![n] = NoSnap]
          /\ total' = NoTotal
  /\ act' = [name |-> "AddSource", n |-> n, spec |-> Cat[n]]
  /\ UNCHANGED <<vals, pars, pmStale, pending>>

(* malformed variants of add_error / add_matrix_error: nothing may change *)
BadKinds == {"size", "negative", "corr_high", "corr_negative", "cor_diag", "matrix_size", "axis"}
AddBad(n, bad) ==
  /\ Bounded("AddBad") /\ "rejects" \notin Off /\ n \in Names /\ status[n] = "absent" /\ bad \in BadKinds
  /\ bad \in {"corr_high", "corr_negative"} => Cat[n].type = "simple"
  /\ bad \in {"cor_diag"} => Cat[n].form = "cor"
  /\ bad \in {"matrix_size"} => Cat[n].type = "matrix"
  /\ bad = "axis" => IsXY
  /\ act' = [name |-> "AddBad", n |-> n, spec |-> Cat[n], bad |-> bad] /\ obs' = [kind |-> "reject"]
  /\ UNCHANGED <<vals, pars, status, ref, covSnap, total, pmStale, pending>>

SetEnabled(n, on) ==
  /\ Bounded("SetEnabled") /\ n \in Names
  /\ IF status[n] = "absent"
     THEN /\ "rejects" \notin Off /\ obs' = [kind |-> "reject"] /\ UNCHANGED <<status, total>>
     ELSE /\ obs' = [kind |-> "none"]
          /\ status' = [status EXCEPT ![n] = IF on THEN "on" ELSE "off"]
          /\ total' = IF "toggle_keeps_total" \in Faults THEN total ELSE NoTotal
  /\ act' = [name |-> IF on THEN "Enable" ELSE "Disable", n |-> n]
  /\ UNCHANGED <<vals, pars, ref, covSnap, pmStale, pending>>

(* whole-data setter (indexed: in place, sources re-pointed to the live array;             *)
(*                    xy: array replaced, every source re-pointed to a copy -- the repair) *)
SetData(nx, ny) ==
  /\ Bounded("SetData") /\ Kind \in {"indexed", "xy"}
  /\ ny \in YChoices /\ nx \in (IF IsXY THEN XChoices ELSE {<<0, 0>>})
  /\ vals' = IF IsXY THEN [a \in {"x", "y"} |-> IF a = "x" THEN nx ELSE ny] ELSE [a \in {"y"} |-> ny]
  /\ LET R == IF Kind = "indexed" THEN Repoint(ref, covSnap, Present, [n \in Names |-> Live])
              ELSE IF "xy_data_no_repoint" \in Faults THEN [rf2 |-> ref, cs2 |-> covSnap]
              ELSE Repoint(ref, covSnap, Present, [n \in Names |-> Static(vals'[Cat[n].axis])])
     IN ref' = R.rf2 /\ covSnap' = R.cs2
  /\ total' = NoTotal
  /\ act' = [name |-> "SetData", x |-> nx, y |-> ny] /\ obs' = [kind |-> "none"]
  /\ UNCHANGED <<pars, status, pmStale, pending>>

SetDataBad ==            \* wrong length: rejected, nothing changes
  /\ Bounded("SetDataBad") /\ "rejects" \notin Off /\ Kind \in {"indexed", "xy"}
  /\ act' = [name |-> "SetDataBad"] /\ obs' = [kind |-> "reject"]
  /\ UNCHANGED <<vals, pars, status, ref, covSnap, total, pmStale, pending>>

SetAxis(ax, nv) ==       \* XYContainer.x / .y setters: in place, sources of that axis re-pointed to a copy
  /\ Bounded("SetAxis") /\ Kind = "xy" /\ ax \in Axes
  /\ nv \in (IF ax = "x" THEN XChoices ELSE YChoices)
  /\ vals' = [vals EXCEPT ![ax] = nv]
  /\ LET R == Repoint(ref, covSnap, OnAxis(ax), [n \in Names |-> Static(nv)])
     IN ref' = R.rf2 /\ covSnap' = R.cs2
  /\ total' = NoTotal
  /\ act' = [name |-> "SetAxis", axis |-> ax, v |-> nv] /\ obs' = [kind |-> "none"]
  /\ UNCHANGED <<pars, status, pmStale, pending>>

SetParams(p) ==          \* parametric models: parameters setter
  /\ Bounded("SetParams") /\ IsModel /\ p \in ParChoices /\ p # pars
  /\ pars' = p /\ pmStale' = TRUE /\ total' = NoTotal
  /\ act' = [name |-> "SetParams", p |-> p] /\ obs' = [kind |-> "none"]
  /\ UNCHANGED <<vals, status, ref, covSnap, pending>>

SetModelX(nx) ==         \* XYParametricModel.x setter: new array, stale, total cleared, x sources re-pointed (repair)
  /\ Bounded("SetModelX") /\ Kind = "xymodel" /\ nx \in XChoices /\ nx # vals["x"]
  /\ vals' = [a \in {"x", "y"} |-> IF a = "x" THEN nx ELSE <<0, 0>>]
  /\ pmStale' = TRUE /\ total' = NoTotal
  /\ LET R == IF "modelx_no_repoint" \in Faults THEN [rf2 |-> ref, cs2 |-> covSnap]
              ELSE Repoint(ref, covSnap, OnAxis("x"), [n \in Names |-> Static(nx)])
     IN ref' = R.rf2 /\ covSnap' = R.cs2
  /\ act' = [name |-> "SetModelX", x |-> nx] /\ obs' = [kind |-> "none"]
  /\ UNCHANGED <<pars, status, pending>>

Fill(c) ==               \* histogram: c = <<entries for bin 1, entries for bin 2>>
  /\ Bounded("Fill") /\ Kind = "hist" /\ c \in {<<1, 0>>, <<0, 1>>, <<1, 2>>} /\ pars[1] + pars[2] <= 6
  /\ pending' = <<pending[1] + c[1], pending[2] + c[2]>>
  /\ pars' = <<pars[1] + c[1], pars[2] + c[2]>>
  \* the repair: fill() drops the cached total and the cached covariance of relative sources
  /\ IF "fill_keeps_caches" \in Faults THEN UNCHANGED <<total, covSnap>>
     ELSE total' = NoTotal /\ covSnap' = [n \in Names |-> NoSnap]
  /\ act' = [name |-> "Fill", c |-> c] /\ obs' = [kind |-> "none"]
  /\ UNCHANGED <<vals, status, ref, pmStale>>

(* reading the stored values: models recalculate, histograms sort the pending entries *)
ReadData ==
  /\ Bounded("ReadData")
  /\ LET vs1 == IF Kind = "hist" THEN Processed(vals, pending) ELSE vals
         vs2 == IF IsModel /\ pmStale THEN Recalc(vs1) ELSE vs1
         R == IF IsModel /\ pmStale THEN RecalcRepoint(vs2, ref, covSnap) ELSE [rf2 |-> ref, cs2 |-> covSnap]
     IN /\ vals' = vs2 /\ ref' = R.rf2 /\ covSnap' = R.cs2
        /\ total' = IF IsModel /\ pmStale THEN NoTotal ELSE total
        /\ obs' = [kind |-> "value", v |-> vs2["y"], m |-> Zero3]
  /\ pending' = <<0, 0>> /\ pmStale' = FALSE
  /\ act' = [name |-> "ReadData"]
  /\ UNCHANGED <<pars, status>>

(* err / cov_mat / cor_mat / cov_mat_inverse of one axis: all served from the cached total *)
ReadTotal(ax) ==
  /\ Bounded("ReadTotal") /\ ax \in Axes
  /\ LET recalc == IsModel /\ pmStale /\ "model_total_before_recalc" \notin Faults /\ ~HasTotal
         procd == Kind = "hist" /\ "hist_ref_unprocessed" \notin Faults /\ ~HasTotal
         vs1 == IF procd THEN Processed(vals, pending) ELSE vals
         vs2 == IF recalc THEN Recalc(vs1) ELSE vs1
         R == IF recalc THEN RecalcRepoint(vs2, ref, covSnap) ELSE [rf2 |-> ref, cs2 |-> covSnap]
         T == ComputeTotal(vs2, R.rf2, R.cs2)
     IN IF HasTotal
        THEN /\ obs' = [kind |-> "value", v |-> <<0, 0>>, m |-> total[ax]]
             /\ UNCHANGED <<vals, ref, covSnap, total, pmStale, pending>>
        ELSE /\ obs' = [kind |-> "value", v |-> <<0, 0>>, m |-> T.tot[ax]]
             /\ vals' = vs2 /\ ref' = R.rf2 /\ covSnap' = T.cs /\ total' = T.tot
             /\ pmStale' = (IF recalc THEN FALSE ELSE pmStale)
             /\ pending' = (IF procd THEN <<0, 0>> ELSE pending)
  /\ act' = [name |-> "ReadTotal", axis |-> ax]
  /\ UNCHANGED <<pars, status>>

(* deep copy: the working object is replaced by a copy, the original is then scrambled by the harness *)
Copy ==
  /\ Bounded("Copy")
  /\ act' = [name |-> "Copy"] /\ obs' = [kind |-> "none"]
  /\ UNCHANGED <<vals, pars, status, ref, covSnap, total, pmStale, pending>>

(* to_file followed by from_file through the object's own class: the working object is replaced by the reloaded one  *)
(* (C09: a reloaded object must be indistinguishable in every LATER step).  Mechanism = that of a new object.        *)
Reload ==
  /\ Bounded("Reload")
  /\ ref' = [n \in Names |-> Live]
  /\ covSnap' = [n \in Names |-> NoSnap]
  /\ total' = NoTotal
  /\ pmStale' = FALSE
  /\ vals' = IF Kind = "hist" THEN [vals EXCEPT !["y"] = <<0, 0>>]
            ELSE IF IsModel THEN Recalc(vals) ELSE vals
  /\ pending' = IF Kind = "hist" THEN pars ELSE pending
  /\ act' = [name |-> "Reload"] /\ obs' = [kind |-> "none"]
  /\ UNCHANGED <<pars, status>>

Next ==
  \/ Reload
  \/ \E n \in Names : AddSource(n)
  \/ \E n \in Names, b \in BadKinds : AddBad(n, b)
  \/ \E n \in Names, on \in BOOLEAN : SetEnabled(n, on)
  \/ \E nx \in XChoices \cup {<<0, 0>>}, ny \in YChoices : SetData(nx, ny)
  \/ SetDataBad
  \/ \E ax \in Axes, nv \in XChoices \cup YChoices : SetAxis(ax, nv)
  \/ \E p \in ParChoices : SetParams(p)
  \/ \E nx \in XChoices : SetModelX(nx)
  \/ \E c \in {<<1, 0>>, <<0, 1>>, <<1, 2>>} : Fill(c)
  \/ ReadData
  \/ \E ax \in Axes : ReadTotal(ax)
  \/ Copy

Spec == Init /\ [][Next]_vars

-----------------------------------------------------------------------------
(* Properties *)
ReadCorrect ==
  /\ act.name = "ReadTotal" => obs.m = IdealCov(act.axis)
  /\ act.name = "ReadData" => obs.v = TrueVals("y")

(* lemma of the mechanism: a cached total is the ideal total *)
CachedTotalIsIdeal == HasTotal => \A ax \in Axes : total[ax] = IdealCov(ax)

SymmetricPSD == \A ax \in Axes : LET C == IdealCov(ax) IN C[1] >= 0 /\ C[3] >= 0 /\ C[1] * C[3] - C[2] * C[2] >= 0

RejectLeavesUnchanged ==
  [][obs'.kind = "reject" => UNCHANGED <<vals, pars, status, ref, covSnap, total, pmStale, pending>>]_vars
=============================================================================
