---------------------------- MODULE GenMinimizer ----------------------------
(* Path-tree generator for Minimizer (see GenNexus.tla for the scheme). *)
EXTENDS Minimizer
VARIABLE hist
GInit == Init /\ hist = <<act>>
GNext == Next /\ hist' = Append(hist, act')
GSpec == GInit /\ [][GNext]_<<vars, hist>>
PathOut == PrintT(ToJson([h |-> hist, a |-> act', o |-> obs']))
StateOut == PrintT(ToJson([sh |-> hist, fitted |-> Fitted, fixed |-> fixU, limited |-> limited, sfm |-> sfm, did |-> did]))
=============================================================================
