---------------------------- MODULE GenHistModel ----------------------------
EXTENDS HistModel
VARIABLE hist
GInit == Init /\ hist = <<[name |-> "Init", poly |-> poly, method |-> method, edges |-> edges, density |-> density, n |-> nEntries, out |-> nOut]>>
GNext == Next /\ hist' = Append(hist, act')
GSpec == GInit /\ [][GNext]_<<vars, hist>>
PathOut == PrintT(ToJson([h |-> hist, a |-> act', o |-> obs']))
StateOut == PrintT(ToJson([sh |-> hist, ideal |-> Bins(method, poly, edges), exact |-> Bins("exact", poly, edges),
                           poly |-> poly, edges |-> edges, n |-> nEntries, out |-> nOut, density |-> density, method |-> method]))
=============================================================================
