---------------------------- MODULE GenFixedIndex ----------------------------
EXTENDS FixedIndex
VARIABLE hist
GInit == Init /\ hist = <<[name |-> "Init", n |-> n, fixed |-> fixed]>>
Step == /\ TLCGet("level") <= 1 /\ act' = [name |-> "Check"] /\ obs' = [kind |-> "none"] /\ UNCHANGED <<n, fixed>>
GNext == Step /\ hist' = Append(hist, act')
GSpec == GInit /\ [][GNext]_<<vars, hist>>
PathOut == PrintT(ToJson([h |-> hist, a |-> act', o |-> obs']))
StateOut ==
  PrintT(ToJson([sh |-> hist, n |-> n, fixed |-> fixed,
                 removed |-> IF Free = {} THEN <<>> ELSE RemoveFixed(Mat),
                 filled |-> IF Free = {} THEN <<>> ELSE FillIn(RemoveFixed(Mat)),
                 free_seq |-> FreeSeq]))
=============================================================================
