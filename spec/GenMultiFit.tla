---------------------------- MODULE GenMultiFit ----------------------------
(* Path-tree generator for MultiFit (see GenNexus.tla for the scheme). *)
EXTENDS MultiFit
VARIABLE hist
GInit == Init /\ hist = <<act>>
GNext == Next /\ hist' = Append(hist, act')
GSpec == GInit /\ [][GNext]_<<vars, hist>>
PathOut == PrintT(ToJson([h |-> hist, a |-> act', o |-> obs']))
StateOut ==
  PrintT(ToJson([sh |-> hist, ndf |-> IdealNdf, fixed |-> fixedIn[0], srcs |-> srcs, fitted |-> fitted,
                 layout |-> {<<i, j, s>> : i \in Chi2Members, j \in Chi2Members, s \in srcs} \cap
                            {t \in (Members \X Members \X srcs) : t[3] \in Block(t[1], t[2])},
                 cons |-> {<<f, cons[f]>> : f \in Fits}, node |-> node,
                 ready |-> \A m \in Chi2Members : \E s \in srcs : m \in ShCat[s]]))
=============================================================================
