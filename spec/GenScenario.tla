---------------------------- MODULE GenScenario ----------------------------
(* Prints every scenario of the grid with its exact expectations (a one-step "history": Init only). *)
EXTENDS Scenario
VARIABLE hist
GInit == Init /\ hist = <<[name |-> "Init", sc |-> sc]>>
GNext == Next /\ hist' = Append(hist, act')
GSpec == GInit /\ [][GNext]_<<vars, hist>>
PathOut == PrintT(ToJson([h |-> hist, a |-> act', o |-> obs']))
StateOut ==
  PrintT(ToJson([sh |-> hist, sc |-> sc,
                 sol |-> <<Sol(sc, 1), Sol(sc, 2)>>,
                 cov |-> <<Cov(sc, 1, 1), Cov(sc, 1, 2), Cov(sc, 2, 2)>>,
                 chi2x16 |-> Chi2x16(sc), ndf |-> Ndf(sc)]))
=============================================================================
