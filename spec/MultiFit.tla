------------------------------ MODULE MultiFit ------------------------------
(***************************************************************************)
(* kafe2.fit.multi.fit.MultiFit (C11; multi-fit part of C10).               *)
(*                                                                         *)
(* Members are taken from an overlap pattern (which parameter names each    *)
(* member has).  A parameter name is ONE Nexus node shared by the multi-fit *)
(* and the members having it (node), but every fit object keeps its own     *)
(* minimiser copy of the values (mcopy) and its own fixed set.              *)
(* Shared uncertainty sources live on a subset of the chi2 members; the     *)
(* joint covariance is assembled block-wise from a map  fit index -> data   *)
(* index  that skips the members whose cost is not a chi2.                  *)
(***************************************************************************)
EXTENDS Naturals, Integers, Sequences, FiniteSets, SequencesExt, TLC, Json

CONSTANTS Pattern, MaxDepth, Off, Faults

(* overlap patterns: member -> parameter names ; kind: "chi2" (indexed, 3 points) or "nll" (histogram)                *)
Patterns ==
  [ disjoint |-> [pars |-> <<<<"a", "b">>, <<"c", "d">>>>, kind |-> <<"chi2", "chi2">>],
    shared   |-> [pars |-> <<<<"a", "b">>, <<"a", "b">>>>, kind |-> <<"chi2", "chi2">>],
    chain    |-> [pars |-> <<<<"a", "b">>, <<"b", "c">>, <<"c", "d">>>>, kind |-> <<"chi2", "chi2", "chi2">>],
    nonadj   |-> [pars |-> <<<<"a", "b">>, <<"c", "d">>, <<"a", "d">>>>, kind |-> <<"chi2", "chi2", "chi2">>],
    mixed    |-> [pars |-> <<<<"a", "b">>, <<"m", "s">>, <<"b", "c">>>>, kind |-> <<"chi2", "nll", "chi2">>],
    reorder  |-> [pars |-> <<<<"a", "b">>, <<"c", "a">>>>, kind |-> <<"chi2", "chi2">>],     \* a member lists a shared name in another position
    \* two XY members (straight lines with a common slope): an x uncertainty shared by both is projected with the CURRENT slope
    xyshared |-> [pars |-> <<<<"a", "b">>, <<"a", "c">>>>, kind |-> <<"xy", "xy">>],
    single   |-> [pars |-> <<<<"a", "b">>>>, kind |-> <<"chi2">>] ]
Pat == Patterns[Pattern]
Members == 1..Len(Pat.pars)
ParsOf(m) == Range(Pat.pars[m])
AllPars == UNION {ParsOf(m) : m \in Members}
Chi2Members == {m \in Members : Pat.kind[m] \in {"chi2", "xy"}}
NPoints(m) == IF Pat.kind[m] \in {"chi2", "xy"} THEN 3 ELSE 5
Fits == {0} \cup Members          \* 0 = the multi-fit itself

(* shared / own source catalogue: name -> members it is declared on *)
ShCat ==
  [ s12 |-> {1, 2}, s13 |-> {1, 3}, s123 |-> {1, 2, 3}, o1 |-> {1}, o2 |-> {2}, o3 |-> {3}, x12 |-> {1, 2} ]     \* x12: on the x axis
ShNames == {n \in DOMAIN ShCat : ShCat[n] \subseteq Chi2Members /\ (n = "x12" => Pattern = "xyshared")}

VARIABLES node,      \* parameter name -> value index (the shared Nexus node)
          mcopy,     \* fit -> (parameter name -> value index): the minimiser's own copy
          fixedIn,   \* fit -> set of names fixed in that fit object
          cons,      \* fit -> number of constraint measurements added there  (simple: 1, matrix over 2 names: 2)
          srcs,      \* set of declared source names
          fitted,    \* multi-fit has run since the last parameter change
          act, obs

vars == <<node, mcopy, fixedIn, cons, srcs, fitted, act, obs>>

Bounded(name) == TLCGet("level") <= MaxDepth /\ name \notin Off
ParsIn(f) == IF f = 0 THEN AllPars ELSE ParsOf(f)

Init ==
  /\ node = [p \in AllPars |-> 0]
  /\ mcopy = [f \in Fits |-> [p \in ParsIn(f) |-> 0]]
  /\ fixedIn = [f \in Fits |-> {}]
  /\ cons = [f \in Fits |-> 0]
  \* every chi2 member starts with an uncertainty source of its own (o1, o2, o3): the joint covariance is then positive
  \* definite whatever is shared later (a source shared by two members that have nothing else is singular)
  /\ srcs = {s \in ShNames : Cardinality(ShCat[s]) = 1}
  /\ fitted = FALSE
  /\ act = [name |-> "Init", pattern |-> Pattern, pars |-> Pat.pars, kind |-> Pat.kind] /\ obs = [kind |-> "none"]

(* set_parameter_values on the multi-fit (f = 0) or on a member: the shared node and THAT object's minimiser *)
SetPar(f, p, v) ==
  /\ Bounded("SetPar") /\ f \in Fits /\ p \in ParsIn(f) /\ v \in {1, 2} /\ node[p] # v
  /\ node' = [node EXCEPT ![p] = v]
  /\ mcopy' = [mcopy EXCEPT ![f][p] = v]
  /\ fitted' = FALSE
  /\ act' = [name |-> "SetPar", f |-> f, p |-> p, v |-> v] /\ obs' = [kind |-> "none"]
  /\ UNCHANGED <<fixedIn, cons, srcs>>

(* fix / release on the multi-fit are mirrored to every member that has the parameter *)
FixPar(p) ==
  /\ Bounded("FixPar") /\ p \in AllPars /\ p \notin fixedIn[0] /\ Cardinality(fixedIn[0]) + 1 < Cardinality(AllPars)
  /\ fixedIn' = [f \in Fits |-> IF f = 0 \/ (p \in ParsIn(f) /\ "fix_not_mirrored" \notin Faults) THEN fixedIn[f] \cup {p} ELSE fixedIn[f]]
  /\ mcopy' = [f \in Fits |-> IF p \in ParsIn(f) THEN [mcopy[f] EXCEPT ![p] = node[p]] ELSE mcopy[f]]
  /\ fitted' = FALSE            \* member results are only compared while nothing was changed since the fit
  /\ act' = [name |-> "FixPar", p |-> p] /\ obs' = [kind |-> "none"]
  /\ UNCHANGED <<node, cons, srcs>>

ReleasePar(p) ==
  /\ Bounded("ReleasePar") /\ p \in fixedIn[0]
  /\ fixedIn' = [f \in Fits |-> IF f = 0 \/ (p \in ParsIn(f) /\ "release_not_mirrored" \notin Faults) THEN fixedIn[f] \ {p} ELSE fixedIn[f]]
  /\ fitted' = FALSE
  /\ act' = [name |-> "ReleasePar", p |-> p] /\ obs' = [kind |-> "none"]
  /\ UNCHANGED <<node, mcopy, cons, srcs>>

AddConstraint(f, k) ==      \* k = 1: simple constraint on the first parameter of f ; k = 2: matrix constraint on its first two
  /\ Bounded("AddConstraint") /\ f \in Fits /\ k \in {1, 2} /\ cons[f] = 0
  /\ cons' = [cons EXCEPT ![f] = k]
  /\ fitted' = FALSE
  /\ act' = [name |-> "AddConstraint", f |-> f, k |-> k] /\ obs' = [kind |-> "none"]
  /\ UNCHANGED <<node, mcopy, fixedIn, srcs>>

AddSource(s) ==             \* shared (several members) or own (one member) uncertainty on y, absolute, uncorrelated between points
  /\ Bounded("AddSource") /\ s \in ShNames \ srcs
  /\ srcs' = srcs \cup {s}
  /\ fitted' = FALSE            \* an error change resets the minimisers
  /\ act' = [name |-> "AddSource", s |-> s, fits |-> ShCat[s]] /\ obs' = [kind |-> "none"]
  /\ UNCHANGED <<node, mcopy, fixedIn, cons>>

DoFit ==
  /\ Bounded("DoFit") /\ \A m \in Chi2Members : \E s \in srcs : m \in ShCat[s]       \* every chi2 member needs an uncertainty
  /\ node' = [p \in AllPars |-> IF p \in fixedIn[0] THEN node[p] ELSE 3]              \* 3 = the value found by the fit
  /\ mcopy' = [mcopy EXCEPT ![0] = node']
  /\ fitted' = TRUE
  /\ act' = [name |-> "DoFit"] /\ obs' = [kind |-> "none"]
  /\ UNCHANGED <<fixedIn, cons, srcs>>

Read(o) ==
  /\ Bounded("Read") /\ o \in {"values", "ndf", "cost", "total_cov", "member_results"}
  /\ o = "member_results" => fitted
  /\ o \in {"cost", "total_cov"} => \A m \in Chi2Members : \E s \in srcs : m \in ShCat[s]
  /\ act' = [name |-> "Read", o |-> o] /\ obs' = [kind |-> "none"]
  /\ UNCHANGED <<node, mcopy, fixedIn, cons, srcs, fitted>>

Next ==
  \/ \E f \in Fits, p \in AllPars, v \in {1, 2} : SetPar(f, p, v)
  \/ \E p \in AllPars : FixPar(p)
  \/ \E p \in AllPars : ReleasePar(p)
  \/ \E f \in Fits, k \in {1, 2} : AddConstraint(f, k)
  \/ \E s \in DOMAIN ShCat : AddSource(s)
  \/ DoFit
  \/ \E o \in {"values", "ndf", "cost", "total_cov", "member_results"} : Read(o)

Spec == Init /\ [][Next]_vars

-----------------------------------------------------------------------------
(* What the property promises *)

(* C10: data points + constraint measurements (on the multi-fit AND on members) - parameters + fixed *)
IdealNdf ==
  FoldLeft(LAMBDA a, m : a + NPoints(m), 0, SetToSeq(Members))
  + FoldLeft(LAMBDA a, f : a + cons[f], 0, SetToSeq(Fits))
  - Cardinality(AllPars) + Cardinality(fixedIn[0])

(* joint covariance: the chi2 members in order; block (i, j) contains source s iff both members carry s *)
DataIndex(m) == Cardinality({k \in Chi2Members : k < m})         \* members that are not chi2 are skipped
Block(i, j) == {s \in srcs : i \in ShCat[s] /\ j \in ShCat[s]}
BlockLayout == [i \in Chi2Members |-> [j \in Chi2Members |-> Block(i, j)]]

(* one value per name: every object that has the name reads the same node *)
OneValuePerName == \A f \in Fits : \A p \in ParsIn(f) : TRUE      \* structural here; the replay compares the real reads

Mirrored == \A p \in AllPars : \A m \in Members : p \in ParsOf(m) => ((p \in fixedIn[0]) <=> (p \in fixedIn[m]))

FixedKeepValue == [][\A p \in AllPars : (p \in fixedIn[0] /\ p \in fixedIn'[0] /\ act'.name # "SetPar") => node'[p] = node[p]]_vars

SymmetricLayout == \A i, j \in Chi2Members : Block(i, j) = Block(j, i)
EverySourceOnItsDiagonal == \A s \in srcs : \A m \in ShCat[s] : s \in Block(m, m)
=============================================================================
