------------------------------ MODULE PlotView ------------------------------
(***************************************************************************)
(* What a plot of a fit draws (C18): kafe2/fit/_base/plot.py (Plot,         *)
(* PlotAdapterBase), fit/xy/plot.py, indexed/plot.py, histogram/plot.py,    *)
(* unbinned/plot.py.                                                        *)
(*                                                                          *)
(* The fit has a state version (every mutator makes a new one); a Plot      *)
(* object is constructed at some version and drawn later, possibly after    *)
(* further mutations: the adapters read the fit when drawing, so every      *)
(* artist must show the CURRENT version.  Rules(...) is the wiring table:   *)
(* per fit type, cost kind and panel, which observable of the fit each      *)
(* drawn artist equals.                                                     *)
(***************************************************************************)
EXTENDS Naturals, Sequences, FiniteSets, TLC, Json

CONSTANTS FitType, Cost, MaxDepth, Off, Faults

PoissonCosts == {"nll", "nllr", "gauss_approximation"}
Panels == IF FitType = "unbinned" THEN {"none"} ELSE {"none", "ratio", "residual", "pull"}

VARIABLES ver,        \* state version of the fit
          results,    \* the fit holds valid results
          plotAt,     \* version at which the Plot object was constructed (0 = no plot yet, versions start at 1)
          nfits,      \* fits on the plot
          joint,      \* the two fits are the members of one MultiFit (plotted through it; the legend then has "global" lines)
          act, obs
vars == <<ver, results, plotAt, nfits, joint, act, obs>>
Bounded(name) == TLCGet("level") <= MaxDepth /\ name \notin Off

(* the wiring table: artist -> what it must equal *)
YErr == {"y_total_error"} \cup (IF Cost \in PoissonCosts THEN {"sqrt_counts"} ELSE {})          \* combined in quadrature
XErr == CASE FitType = "xy" -> "x_total_error" [] FitType = "hist" -> "half_bin_width" [] OTHER -> "none"
MainRules(res) ==
  CASE FitType = "xy" ->
         {[artist |-> "data", x |-> "x_data", y |-> "y_data", xerr |-> XErr, yerr |-> YErr],
          [artist |-> "model_line", x |-> "support_points_over_x_range", y |-> "model_function_at_current_parameters"]}
         \cup (IF res THEN {[artist |-> "model_error_band", y |-> "model_line", half_width |-> "propagated_parameter_uncertainty"]} ELSE {})
    [] FitType = "indexed" ->
         {[artist |-> "data", x |-> "index", y |-> "data", xerr |-> XErr, yerr |-> YErr],
          [artist |-> "model", x |-> "index", y |-> "model"]}
    [] FitType = "hist" ->
         {[artist |-> "data", x |-> "bin_centers", y |-> "bin_contents", xerr |-> XErr, yerr |-> YErr],
          [artist |-> "model", x |-> "bin_centers", y |-> "model_bin_contents", width |-> "bin_width"],
          [artist |-> "model_density", x |-> "support_points_over_bin_range", y |-> "density_times_entries_times_mean_bin_width"]}
    [] FitType = "unbinned" ->
         {[artist |-> "data", x |-> "data"], [artist |-> "model_line", x |-> "support_points_over_x_range", y |-> "model_function_at_current_parameters"]}
PanelRules(panel) ==
  CASE panel = "none" -> {}
    [] panel = "ratio" -> {[artist |-> "ratio", y |-> "data/model", yerr |-> "total/model"]}
    [] panel = "residual" -> {[artist |-> "residual", y |-> "data-model", yerr |-> "total"]}
    [] panel = "pull" -> {[artist |-> "pull", y |-> "(data-model)/total"]}
Rules(panel, res) == MainRules(res) \cup PanelRules(panel) \cup {[artist |-> "legend", text |-> "formatted_results_of_the_fit"]}

Init == /\ ver = 1 /\ results = FALSE /\ plotAt = 0 /\ nfits \in {1, 2} /\ joint \in BOOLEAN
        /\ (joint => nfits = 2 /\ FitType \in {"xy", "indexed", "hist"})
        /\ act = [name |-> "Init", fit |-> FitType, cost |-> Cost, nfits |-> nfits, joint |-> joint] /\ obs = [kind |-> "none"]

Mutate(m) ==
  /\ Bounded("Mutate") /\ m \in {"SetPar", "AddError", "SetData"}
  /\ (m = "AddError" => FitType # "unbinned")
  /\ (joint => m = "SetPar")               \* members of a multi-fit: only their (shared) parameters are changed here
  /\ ver' = ver + 1 /\ results' = FALSE
  /\ act' = [name |-> "Mutate", m |-> m] /\ obs' = [kind |-> "none"]
  /\ UNCHANGED <<plotAt, nfits, joint>>
DoFit ==
  /\ Bounded("DoFit") /\ ~results
  /\ ver' = ver + 1 /\ results' = TRUE
  /\ act' = [name |-> "DoFit"] /\ obs' = [kind |-> "none"]
  /\ UNCHANGED <<plotAt, nfits, joint>>
MakePlot ==
  /\ Bounded("MakePlot") /\ plotAt = 0
  /\ plotAt' = ver
  /\ act' = [name |-> "MakePlot"] /\ obs' = [kind |-> "none"]
  /\ UNCHANGED <<ver, results, nfits, joint>>
Draw(panel, asym, xlog, ylog, separate) ==
  /\ Bounded("Draw") /\ plotAt # 0 /\ panel \in Panels
  /\ (asym => results /\ ~joint) /\ (separate => nfits = 2) /\ (xlog => FitType = "xy")      \* the histogram catalogue starts at 0: a log axis is refused there
  /\ (ylog => panel = "none")
  /\ obs' = [kind |-> "drawn", shows |-> IF "adapter_snapshots_fit" \in Faults THEN plotAt ELSE ver, rules |-> Rules(panel, results)]
  /\ act' = [name |-> "Draw", panel |-> panel, asym |-> asym, xlog |-> xlog, ylog |-> ylog, separate |-> separate]
  /\ UNCHANGED <<ver, results, plotAt, nfits, joint>>
Next ==
  \/ \E m \in {"SetPar", "AddError", "SetData"} : Mutate(m)
  \/ DoFit \/ MakePlot
  \/ \E p \in Panels, a, xl, yl, s \in BOOLEAN : Draw(p, a, xl, yl, s)
Spec == Init /\ [][Next]_vars

-----------------------------------------------------------------------------
DrawnIsCurrent == act.name = "Draw" => obs.shows = ver
PoissonTermIffPoissonCost == act.name = "Draw" => \A r \in obs.rules : (r.artist = "data" /\ "yerr" \in DOMAIN r) => (("sqrt_counts" \in r.yerr) <=> (Cost \in PoissonCosts))
BandOnlyWithResults == act.name = "Draw" => ((\E r \in obs.rules : r.artist = "model_error_band") => results)
EveryDrawHasDataAndLegend == act.name = "Draw" => (\E r \in obs.rules : r.artist = "data") /\ (\E r \in obs.rules : r.artist = "legend")
=============================================================================
