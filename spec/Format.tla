------------------------------- MODULE Format -------------------------------
(***************************************************************************)
(* 'value +/- uncertainty' strings (C17): kafe2/fit/_base/format.py          *)
(* ScalarFormatter.__init__/__call__ and ParameterFormatter.get_formatted,   *)
(* transcribed step by step in decimal integer arithmetic, next to the       *)
(* declarative statement of the property.                                    *)
(*                                                                          *)
(* A number is  N * 10^E  with N a natural number (the sign of the value is  *)
(* kept apart) and E the exponent of the job.  A "place" is the decimal      *)
(* exponent of the last displayed digit.  Every rounding step may resolve a  *)
(* tie either way (the code rounds binary floats; the property allows both), *)
(* so the algorithm yields a SET of admissible displays.                     *)
(***************************************************************************)
EXTENDS Naturals, Integers, Sequences, FiniteSets, TLC, Json

CONSTANTS Sigmas, Values, Digs, Exps, Faults, MaxDepth, Off

VARIABLES job,     \* [s, x, neg, n, e]: uncertainty s*10^e, value (-1)^neg * x*10^e, n significant digits
          act, obs
vars == <<job, act, obs>>

RECURSIVE Pow10(_)
Pow10(k) == IF k <= 0 THEN 1 ELSE 10 * Pow10(k - 1)
RECURSIVE Digits(_)
Digits(N) == IF N < 10 THEN 1 ELSE 1 + Digits(N \div 10)          \* number of decimal digits of N >= 1
Abs(z) == IF z < 0 THEN -z ELSE z
Max(a, b) == IF a > b THEN a ELSE b

(* the multiple of 10^p nearest to N ; p <= 0: N itself.  A tie is resolved by mode: "up", "down" or "even".                      *)
(* The numbers are binary floats: a decimal tie is really just above ("up"), just below ("down") or exactly on the tie ("even",  *)
(* printf and rint round half to even).  numpy.around multiplies first, which can land exactly on the tie: it may use "even"     *)
(* where printf uses the bias.                                                                                                   *)
Round(N, p, mode) ==
  IF p <= 0 THEN N
  ELSE LET m == Pow10(p) r == N % m lo == N - r IN
       IF 2 * r < m THEN lo ELSE IF 2 * r > m THEN lo + m
       ELSE CASE mode = "up" -> lo + m [] mode = "down" -> lo [] mode = "even" -> IF (lo \div m) % 2 = 0 THEN lo ELSE lo + m
RoundSet(N, p) == {Round(N, p, md) : md \in {"up", "down"}}
AroundModes(bias) == {bias, "even"}

(* printf "%#.{k}g" of N*10^e: the k (at least 1) significant digits; a carry moves the last place up *)
Display(N, k, e, bias) ==
  LET kk == Max(k, 1) IN
  IF N = 0 THEN [num |-> 0, place |-> -(kk - 1)]
  ELSE LET D == Round(N, Digits(N) - kk, bias) IN [num |-> D, place |-> Digits(D) - kk + e]

(* ScalarFormatter.__init__ : number of decimals for the value *)
SigSet(s, n, e, sb) ==
  LET sig0 == -(Digits(s) - 1 + e) + n - 1 IN
  {-(Digits(R) - 1 + e) + n - 1 : R \in (IF "no_inner_guard" \in Faults THEN {s}
                                           ELSE IF "guard_uses_around" \in Faults THEN {Round(s, -sig0 - e, md) : md \in AroundModes(sb)}
                                           ELSE {Round(s, -sig0 - e, sb)})}        \* the exponent of the "%.{n-1}e" string

(* ScalarFormatter.__call__ *)
ValueDisplays(s, x, n, e, sb, xb) ==
  UNION {{LET lx == IF RX = 0 THEN -1 ELSE Digits(RX) - 1 + e
              valsig == sig + lx + (IF "n_minus_one_digits" \in Faults THEN n - 1 ELSE 1)
          IN Display(x, Max(valsig, 0), e, xb)
          : RX \in {Round(x, -sig - e, md) : md \in AroundModes(xb)}} : sig \in SigSet(s, n, e, sb)}

(* ParameterFormatter.get_formatted, symmetric uncertainty, round_value_to_error *)
Formatted(j) == {[val |-> v, err |-> Display(j.s, j.n, j.e, j.sb)] : v \in ValueDisplays(j.s, j.x, j.n, j.e, j.sb, j.xb)}

SigmasQuick == (1..130) \cup (940..1060) \cup {9949, 9950, 9951, 9994, 9995, 9996, 9999}
ValuesQuick == (0..130) \cup (940..1060) \cup {4, 49, 50, 51, 9949, 9950, 9951, 9994, 9995, 9999, 99949, 99950, 99951, 99995, 123456}
SigmasAll == (1..1200) \cup (9940..10060) \cup {99949, 99950, 99951, 99995}
ValuesAll == (0..1200) \cup (9940..10060) \cup {99949, 99950, 99951, 99994, 99995, 99999, 123456, 999949, 999950, 999951}
SigmasGen == (1..12) \cup {15, 25, 35, 45, 55, 85, 94, 95, 96, 99, 100, 104, 105, 123, 949, 950, 951, 994, 995, 996, 999, 1000, 1049, 9949, 9950, 9995, 9999}
ValuesGen == (0..25) \cup {35, 45, 49, 50, 51, 85, 94, 95, 96, 99, 100, 101, 104, 105, 123, 149, 150, 151, 949, 950, 951, 994, 995, 996, 999, 1000, 1004, 1005, 1234,
                            9949, 9950, 9951, 9994, 9995, 9996, 9999, 10004, 12345, 99949, 99950, 99951, 99995, 123456, 999950, 999951}
ExpsWide == {0 - 12, 0 - 5, 0 - 3, 0 - 1, 0, 2, 9}
DigsAll == 1..4
ExpsAll == {0 - 6, 0 - 3, 0 - 1, 0, 2}          \* 10^-6: numbers below 1e-4 are printed in exponent notation

RECURSIVE CanTie(_)
CanTie(N) == IF N = 0 THEN FALSE ELSE IF N % 10 = 0 THEN CanTie(N \div 10) ELSE N % 10 = 5     \* last non-zero digit is a 5

Bounded(name) == TLCGet("level") <= MaxDepth /\ name \notin Off
Init ==
  /\ job \in [s : Sigmas, x : Values, neg : BOOLEAN, n : Digs, e : Exps, sb : {"up", "down", "even"}, xb : {"up", "down", "even"}]
  /\ (job.neg => job.x \in 1..60)                       \* the algorithm never looks at the sign: a few negative values are enough
  /\ (~CanTie(job.s) => job.sb = "even") /\ (~CanTie(job.x) => job.xb = "even")
  /\ act = [name |-> "Init"] /\ obs = [kind |-> "none"]
Format ==
  /\ Bounded("Format") /\ act.name = "Init"
  /\ obs' = [kind |-> "displays", all |-> Formatted(job)]
  /\ act' = [name |-> "Format"] /\ UNCHANGED job
Next == Format
Spec == Init /\ [][Next]_vars

-----------------------------------------------------------------------------
(* C17, first sentence *)
Ulp(place, e) == Pow10(place - e)       \* one unit of the place, in units of 10^e (1 if the place is below the unit)
(* the displayed uncertainty is the true one rounded to n significant digits *)
UncertaintyRounded(j, d) == 2 * Abs(d.err.num - j.s) <= Ulp(d.err.place, j.e) /\ (d.err.place < j.e => d.err.num = j.s)
(* the displayed value is within half a unit of the uncertainty's last displayed digit *)
HalfUnit(j, d) == IF d.err.place - j.e >= 1 THEN 2 * Abs(d.val.num - j.x) <= Ulp(d.err.place, j.e) ELSE d.val.num = j.x
(* and shown at least down to that digit when it is at least as large as the uncertainty *)
ShownDownTo(j, d) == j.x >= j.s => d.val.place <= d.err.place

Faithful == act.name = "Format" => \A d \in obs.all : UncertaintyRounded(job, d) /\ HalfUnit(job, d) /\ ShownDownTo(job, d)
(* the carry cases are in the grid: an uncertainty whose rounding gains a digit, a value whose rounding gains a digit *)
CarryCovered == \E s \in Sigmas, n \in Digs : \E D \in RoundSet(s, Digits(s) - n) : Digits(D) > Digits(s)
=============================================================================
