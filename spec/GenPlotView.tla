---------------------------- MODULE GenPlotView ----------------------------
EXTENDS PlotView
VARIABLE hist
GInit == Init /\ hist = <<act>>
GNext == Next /\ hist' = Append(hist, act')
GSpec == GInit /\ [][GNext]_<<vars, hist>>
PathOut == PrintT(ToJson([h |-> hist, a |-> act', o |-> IF obs'.kind = "drawn" THEN [kind |-> "drawn", shows |-> obs'.shows, artists |-> {r.artist : r \in obs'.rules}] ELSE obs']))
StateOut == PrintT(ToJson([sh |-> hist, ver |-> ver, results |-> results]))
=============================================================================
