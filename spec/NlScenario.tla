----------------------------- MODULE NlScenario -----------------------------
(***************************************************************************)
(* Nonlinear fits (C06): the specification enumerates the admissible        *)
(* configurations and schedules the property's own probes as actions.       *)
(* Configuration: model family, uncertainty configuration, dynamic-error    *)
(* algorithm, fixed parameter, limited parameter (limit placed so that the  *)
(* optimum lies strictly inside, or so that it is active), likelihood.      *)
(* State: which parameters are fixed / limited, whether a fit has run, how  *)
(* often.  The expectations are statements about the state:                 *)
(*   FixedUntouched  - a fixed parameter keeps exactly its value            *)
(*   WithinLimits    - a limited parameter lies within its closed limits    *)
(*   LocalMinimum    - no probed neighbour within the limits is lower       *)
(*   FixedPoint      - a second fit does not move the optimum               *)
(*   BackendsAgree   - both backends report the same optimum                *)
(***************************************************************************)
EXTENDS Naturals, Sequences, FiniteSets, TLC, Json

CONSTANTS Families, MaxDepth, Off

VARIABLES cfg, nfits, probed, act, obs
vars == <<cfg, nfits, probed, act, obs>>

NPar == [growth |-> 2, expoffset |-> 3, exponential |-> 2, powerlaw |-> 2, peak |-> 3, sinusoid |-> 3, logistic |-> 3, histpeak |-> 2, unbinned |-> 2]
Kind == [growth |-> "xy", expoffset |-> "xy", exponential |-> "xy", powerlaw |-> "xy", peak |-> "xy", sinusoid |-> "xy", logistic |-> "xy", histpeak |-> "hist", unbinned |-> "unbinned"]

Configs ==
  {c \in [family : Families, errors : {"y", "xy", "xmodel", "ymodelrel", "xymodelrel", "none"}, dea : {"nonlinear", "iterative"},
          fixed : 0..3, limited : 0..3, limit : {"inside", "active", "zero"}] :
      /\ c.fixed <= NPar[c.family] /\ c.limited <= NPar[c.family]
      /\ (c.fixed # 0 => c.fixed # c.limited)
      /\ (c.limited = 0 => c.limit = "inside")
      /\ (Kind[c.family] = "xy" => c.errors # "none")
      /\ (Kind[c.family] # "xy" => (c.errors = "none" /\ c.dea = "nonlinear"))
      /\ (c.dea = "iterative" => c.errors \in {"xy", "ymodelrel", "xymodelrel"})
      /\ (c.limit = "active" => c.fixed = 0)
      \* a limit of exactly 0 that is active: only the family whose third parameter (an offset) has a negative unconstrained optimum
      /\ (c.limit = "zero" => (c.family = "expoffset" /\ c.limited = 3 /\ c.fixed = 0)) }

Bounded(name) == TLCGet("level") <= MaxDepth /\ name \notin Off
Init == cfg \in Configs /\ nfits = 0 /\ probed = {} /\ act = [name |-> "Init"] /\ obs = [kind |-> "none"]

DoFit == /\ Bounded("DoFit") /\ nfits < 2
         /\ nfits' = nfits + 1 /\ probed' = {}
         /\ act' = [name |-> IF nfits = 0 THEN "DoFit" ELSE "Refit"] /\ obs' = [kind |-> "none"]
         /\ UNCHANGED cfg
ProbeNeighbour(j, s) ==
  /\ Bounded("ProbeNeighbour") /\ nfits > 0 /\ j \in 1..NPar[cfg.family] /\ j # cfg.fixed /\ s \in {"-", "+"} /\ <<j, s>> \notin probed
  /\ probed' = probed \cup {<<j, s>>}
  /\ act' = [name |-> "ProbeNeighbour", j |-> j, side |-> s] /\ obs' = [kind |-> "none"]
  /\ UNCHANGED <<cfg, nfits>>
CrossBackend ==
  /\ Bounded("CrossBackend") /\ nfits = 1 /\ probed = {}
  /\ act' = [name |-> "CrossBackend"] /\ obs' = [kind |-> "none"]
  /\ UNCHANGED <<cfg, nfits, probed>>
Next == DoFit \/ CrossBackend \/ \E j \in 1..3, s \in {"-", "+"} : ProbeNeighbour(j, s)
Spec == Init /\ [][Next]_vars

(* bookkeeping statements the replay checks against the code after every action *)
FixedSet == IF cfg.fixed = 0 THEN {} ELSE {cfg.fixed}
LimitedSet == IF cfg.limited = 0 THEN {} ELSE {cfg.limited}
ProbesOnlyAfterFit == probed # {} => nfits > 0
NeverProbeFixed == \A p \in probed : p[1] \notin FixedSet
=============================================================================
