------------------------------ MODULE Scenario ------------------------------
(***************************************************************************)
(* Exact reference for models LINEAR in two parameters (C05, linear part of *)
(* C07, the equivariance laws of C15).                                      *)
(*                                                                         *)
(* A scenario: abscissae x_i, integer data d_i, integer weights w_i =       *)
(* 16/sigma_i^2 in {1, 4, 16} (uncorrelated Gaussian uncertainties), the    *)
(* model m_i = p1 * f1(x_i) + p2 * f2(x_i) with basis functions from a      *)
(* catalogue, optionally one FIXED parameter (a deleted column) and one     *)
(* Gaussian CONSTRAINT (an extra measurement row).  The generalised least   *)
(* squares solution, its covariance matrix and chi2 are computed as exact   *)
(* rationals <<numerator, denominator>> from the normal equations.          *)
(* The state machine only enumerates scenarios and their transformations    *)
(* (point permutation, parameter swap, change of the unit of y); the        *)
(* invariants are the algebraic laws the property states.                   *)
(***************************************************************************)
EXTENDS Naturals, Integers, Sequences, FiniteSets, SequencesExt, TLC, Json

CONSTANTS MaxDepth, Off, Bases, Grid        \* Grid: "small" | "full"

VARIABLES sc, act, obs
vars == <<sc, act, obs>>

-----------------------------------------------------------------------------
(* rationals *)
Abs(a) == IF a < 0 THEN -a ELSE a
RECURSIVE Gcd(_, _)
Gcd(a, b) == IF b = 0 THEN a ELSE Gcd(b, a % b)
Norm(q) == LET n == q[1] d == q[2] g == Gcd(Abs(n), Abs(d)) s == IF d < 0 THEN -1 ELSE 1
           IN IF n = 0 THEN <<0, 1>> ELSE <<(s * n) \div g, (s * d) \div g>>
RMul(q, k) == Norm(<<q[1] * k, q[2]>>)
RDiv(q, k) == Norm(<<q[1], q[2] * k>>)

(* basis functions: value of basis b at abscissa x (small integers) *)
F(b, x) == CASE b = "one" -> 1 [] b = "x" -> x [] b = "x2" -> x * x [] b = "alt" -> IF x % 2 = 0 THEN 1 ELSE -1

BasesAll == {<<"x", "one">>, <<"one", "x">>, <<"x2", "x">>, <<"x", "alt">>}
N(s) == Len(s.x)
Idx(s) == 1..N(s)
A(s, i, j) == F(s.basis[j], s.x[i])
SumOver(S, f(_)) == FoldLeft(LAMBDA acc, i : acc + f(i), 0, SetToSeq(S))

(* constraint: parameter cp pulled to value cv with weight cw (= 16 / uncertainty^2); cp = 0 means none *)
CW(s, j, k) == IF s.cp # 0 /\ j = s.cp /\ k = s.cp THEN s.cw ELSE 0
CG(s, j) == IF s.cp # 0 /\ j = s.cp THEN s.cw * s.cv ELSE 0

(* normal equations for the FREE parameters; a fixed parameter fp (0 = none) held at value fv contributes a known offset *)
Resid0(s, i) == s.d[i] - (IF s.fp = 0 THEN 0 ELSE s.fv * A(s, i, s.fp))
NN(s, j, k) == SumOver(Idx(s), LAMBDA i : s.w[i] * A(s, i, j) * A(s, i, k)) + CW(s, j, k)
GG(s, j) == SumOver(Idx(s), LAMBDA i : s.w[i] * A(s, i, j) * Resid0(s, i)) + CG(s, j)
          - (IF s.fp # 0 /\ s.cp = s.fp THEN 0 ELSE 0)

Det(s) == IF s.fp = 0 THEN NN(s, 1, 1) * NN(s, 2, 2) - NN(s, 1, 2) * NN(s, 1, 2)
          ELSE NN(s, 3 - s.fp, 3 - s.fp)
WellPosed(s) == Det(s) > 0

(* solution p_j as a rational; for a fixed parameter its fixed value *)
Sol(s, j) ==
  IF s.fp = j THEN <<s.fv, 1>>
  ELSE IF s.fp # 0 THEN Norm(<<GG(s, j), NN(s, j, j)>>)
  ELSE LET o == 3 - j IN Norm(<<NN(s, o, o) * GG(s, j) - NN(s, 1, 2) * GG(s, o), Det(s)>>)

(* parameter covariance (in units where weights are 16 / sigma^2): C = 16 * N^-1 ; zero rows / columns for a fixed parameter *)
Cov(s, j, k) ==
  IF s.fp = j \/ s.fp = k THEN <<0, 1>>
  ELSE IF s.fp # 0 THEN Norm(<<16, NN(s, j, j)>>)
  ELSE IF j = k THEN Norm(<<16 * NN(s, 3 - j, 3 - j), Det(s)>>)
  ELSE Norm(<<-16 * NN(s, 1, 2), Det(s)>>)

(* 16 * chi2 at the optimum = S - sum_j g_j p_j  with  S = sum w r0^2 (+ constraint) -- over the common denominator Den *)
Den(s) == IF s.fp = 0 THEN Det(s) ELSE NN(s, 3 - s.fp, 3 - s.fp)
PNum(s, j) == IF s.fp = j THEN 0
              ELSE IF s.fp # 0 THEN GG(s, j)
              ELSE NN(s, 3 - j, 3 - j) * GG(s, j) - NN(s, 1, 2) * GG(s, 3 - j)
S0(s) == SumOver(Idx(s), LAMBDA i : s.w[i] * Resid0(s, i) * Resid0(s, i)) + (IF s.cp = 0 THEN 0 ELSE s.cw * s.cv * s.cv)
Chi2x16(s) ==
  LET free == {1, 2} \ {s.fp}
  IN Norm(<<S0(s) * Den(s) - SumOver(free, LAMBDA j : GG(s, j) * PNum(s, j)), Den(s)>>)

Ndf(s) == N(s) + (IF s.cp = 0 THEN 0 ELSE 1) - 2 + (IF s.fp = 0 THEN 0 ELSE 1)

-----------------------------------------------------------------------------
(* the grid *)
XSets == IF Grid = "small" THEN {<<0, 1, 2>>, <<1, 2, 3>>} ELSE {<<0, 1, 2>>, <<1, 2, 3>>, <<-1, 0, 2>>, <<0, 1, 2, 3>>}
DSets == IF Grid = "small" THEN {<<1, 3, 4>>, <<2, 1, -1>>} ELSE {<<1, 3, 4>>, <<2, 1, -1>>, <<0, 2, 3>>, <<1, 3, 4, 8>>, <<3, 0, -2, 1>>}
WSets == IF Grid = "small" THEN {<<16, 16, 16>>, <<4, 16, 4>>} ELSE {<<16, 16, 16>>, <<4, 16, 4>>, <<16, 4, 1>>, <<4, 4, 16, 16>>, <<16, 16, 4, 4>>}
Scenarios ==
  {s \in [x : XSets, d : DSets, w : WSets, basis : Bases, fp : {0, 1, 2}, fv : {0, 1}, cp : {0, 1, 2}, cv : {1, 2}, cw : {4, 16}] :
      /\ Len(s.x) = Len(s.d) /\ Len(s.d) = Len(s.w)
      /\ (s.fp = 0 => s.fv = 0) /\ (s.cp = 0 => (s.cv = 1 /\ s.cw = 4))
      /\ s.cp # s.fp \/ s.cp = 0
      /\ WellPosed(s)}

(* transformations *)
Perm(s) == [s EXCEPT !.x = Reverse(s.x), !.d = Reverse(s.d), !.w = Reverse(s.w)]
SwapIdx(j) == IF j = 0 THEN 0 ELSE 3 - j
Swap(s) == [s EXCEPT !.basis = <<s.basis[2], s.basis[1]>>, !.fp = SwapIdx(s.fp), !.cp = SwapIdx(s.cp)]
Scalable(s) == (\A i \in Idx(s) : s.w[i] \in {4, 16}) /\ (s.cp # 0 => s.cw \in {4, 16})    \* then w / 4 stays integral
ScaleY(s) == [s EXCEPT !.d = [i \in Idx(s) |-> 2 * s.d[i]], !.w = [i \in Idx(s) |-> s.w[i] \div 4], !.fv = 2 * s.fv, !.cv = 2 * s.cv,
                       !.cw = s.cw \div 4]

Bounded(name) == TLCGet("level") <= MaxDepth /\ name \notin Off
Init == sc \in Scenarios /\ act = [name |-> "Init"] /\ obs = [kind |-> "none"]
Transform(t) ==
  /\ Bounded("Transform") /\ t \in {"perm", "swap", "scale"}
  /\ t = "scale" => Scalable(sc)
  /\ sc' = CASE t = "perm" -> Perm(sc) [] t = "swap" -> Swap(sc) [] t = "scale" -> ScaleY(sc)
  /\ act' = [name |-> "Transform", t |-> t] /\ obs' = [kind |-> "none"]
Next == \E t \in {"perm", "swap", "scale"} : Transform(t)
Spec == Init /\ [][Next]_vars

-----------------------------------------------------------------------------
(* The laws (C15) and the GLS identities (C05) on the grid *)
PermutationInvariant ==
  \A j \in {1, 2} : Sol(Perm(sc), j) = Sol(sc, j) /\ Cov(Perm(sc), j, j) = Cov(sc, j, j) /\ Chi2x16(Perm(sc)) = Chi2x16(sc)
ParameterOrderEquivariant ==
  \A j \in {1, 2} : Sol(Swap(sc), 3 - j) = Sol(sc, j) /\ Cov(Swap(sc), 3 - j, 3 - j) = Cov(sc, j, j) /\ Chi2x16(Swap(sc)) = Chi2x16(sc)
UnitEquivariant ==
  Scalable(sc) => \A j \in {1, 2} : /\ Sol(ScaleY(sc), j) = RMul(Sol(sc, j), 2)
                                     /\ Cov(ScaleY(sc), j, j) = RMul(Cov(sc, j, j), 4)
                                     /\ Chi2x16(ScaleY(sc)) = Chi2x16(sc) /\ Ndf(ScaleY(sc)) = Ndf(sc)
(* a fixed parameter is a deleted column: fixing p_j at its unconstrained optimum does not move the other one (when that optimum is an integer on the grid) *)
FixedIsDeletedColumn ==
  (sc.fp = 0 /\ sc.cp = 0) => \A j \in {1, 2} :
      (Sol(sc, j)[2] = 1 /\ Sol(sc, j)[1] \in {0, 1}) => Sol([sc EXCEPT !.fp = j, !.fv = Sol(sc, j)[1]], 3 - j) = Sol(sc, 3 - j)
(* the covariance is positive on the diagonal and the solution is a stationary point: gradient = 0 exactly *)
Stationary ==
  sc.fp = 0 => LET p1 == Sol(sc, 1) p2 == Sol(sc, 2) IN
     \A j \in {1, 2} : NN(sc, j, 1) * p1[1] * p2[2] + NN(sc, j, 2) * p2[1] * p1[2] = GG(sc, j) * p1[2] * p2[2]
CovPositive == \A j \in {1, 2} : sc.fp # j => Cov(sc, j, j)[1] > 0
=============================================================================
