------------------------------ MODULE HistModel ------------------------------
(***************************************************************************)
(* Histogram model bin contents (C13): kafe2/fit/histogram/model.py          *)
(* (HistParametricModel._bin_evaluation_*, _recalculate, lazy stale flag)    *)
(* and HistFit.model (scaling a density by the number of entries).           *)
(*                                                                          *)
(* Densities are polynomials with small integer coefficients, bin edges are  *)
(* integers; every quantity is scaled by 960 = 60 * 16 so that the exact     *)
(* integral (denominators 1..5) and the rules evaluated at bin centres       *)
(* (denominators 2^k) stay integral.                                         *)
(***************************************************************************)
EXTENDS Naturals, Integers, Sequences, FiniteSets, SequencesExt, TLC, Json

CONSTANTS MaxDepth, Off, Faults

VARIABLES poly,      \* current coefficient vector <<c0, .., c4>>
          method,    \* "midpoint" | "trapezoid" | "simpson" | "exact" (numerical quadrature / antiderivative)
          edges, density, nEntries,
          nOut,      \* how many of the entries lie outside the bin range (underflow / overflow): they count as entries
          stored,    \* the bin contents held by the parametric model (x 960)
          stale, act, obs
vars == <<poly, method, edges, density, nEntries, nOut, stored, stale, act, obs>>

Polys == {<<1, 0, 0, 0, 0>>, <<1, 1, 0, 0, 0>>, <<0, 0, 1, 0, 0>>, <<2, -1, 0, 1, 0>>, <<0, 0, 0, 0, 1>>, <<1, 0, 1, 0, 1>>}
Degree(c) == CHOOSE k \in 0..4 : c[k + 1] # 0 /\ \A j \in (k + 1)..4 : c[j + 1] = 0
EdgeSets == {<<0, 2, 4>>, <<0, 1, 2, 4>>, <<1, 2>>}
Methods == {"rectangle", "midpoint", "trapezoid", "simpson", "numerical", "antiderivative", "vectorised"}   \* every accepted bin_evaluation
Entries == {5, 7}

RECURSIVE Pow(_, _)
Pow(x, k) == IF k = 0 THEN 1 ELSE x * Pow(x, k - 1)
P(c, x) == c[1] + c[2] * x + c[3] * Pow(x, 2) + c[4] * Pow(x, 3) + c[5] * Pow(x, 4)                 \* p(x) at an integer
P16c(c, a, b) == 16 * c[1] + 8 * c[2] * (a + b) + 4 * c[3] * Pow(a + b, 2) + 2 * c[4] * Pow(a + b, 3) + c[5] * Pow(a + b, 4)   \* 16 p((a+b)/2)
Exact960(c, a, b) == 16 * (60 * c[1] * (b - a) + 30 * c[2] * (Pow(b, 2) - Pow(a, 2)) + 20 * c[3] * (Pow(b, 3) - Pow(a, 3))
                           + 15 * c[4] * (Pow(b, 4) - Pow(a, 4)) + 12 * c[5] * (Pow(b, 5) - Pow(a, 5)))
Mid960(c, a, b) == 60 * (b - a) * P16c(c, a, b)
Trap960(c, a, b) == 480 * (b - a) * (P(c, a) + P(c, b))
Simp960(c, a, b) == (IF "simpson_weight_2" \in Faults THEN 240 ELSE 160) * (b - a) * (P(c, a) + P(c, b))
                    + (IF "simpson_weight_2" \in Faults THEN 20 ELSE 40) * (b - a) * P16c(c, a, b)
Rule960(m, c, a, b) == CASE m \in {"midpoint", "rectangle"} -> Mid960(c, a, b) [] m = "trapezoid" -> Trap960(c, a, b)
                         [] m = "simpson" -> Simp960(c, a, b)
                         [] m \in {"numerical", "antiderivative", "vectorised", "exact"} -> Exact960(c, a, b)
Bins(m, c, e) == [i \in 1..(Len(e) - 1) |-> Rule960(m, c, e[i], e[i + 1])]

Bounded(name) == TLCGet("level") <= MaxDepth /\ name \notin Off
Init ==
  /\ poly \in Polys /\ method \in Methods /\ edges \in EdgeSets /\ density \in BOOLEAN /\ nEntries \in {7} /\ nOut \in {0, 2}
  /\ (method \in {"rectangle", "vectorised"} => poly \in {<<1, 1, 0, 0, 0>>, <<0, 0, 0, 0, 1>>})       \* aliases: fewer starting points
  /\ stored = Bins(method, poly, edges) /\ stale = FALSE
  /\ act = [name |-> "Init"] /\ obs = [kind |-> "none"]

SetParams(c) ==
  /\ Bounded("SetParams") /\ c \in Polys /\ c # poly
  /\ poly' = c /\ stale' = ("no_stale_flag" \notin Faults)
  /\ act' = [name |-> "SetParams", c |-> c] /\ obs' = [kind |-> "none"]
  /\ UNCHANGED <<method, edges, density, nEntries, nOut, stored>>

ReadModel ==             \* HistParametricModel.data (x 960), and HistFit.model = data * n_entries for a density
  /\ Bounded("ReadModel")
  /\ LET b == IF stale THEN Bins(method, poly, edges) ELSE stored IN
       /\ stored' = b /\ stale' = FALSE
       /\ obs' = [kind |-> "value", bins |-> b,
                  fit |-> [i \in DOMAIN b |-> b[i] * (IF density /\ "no_entry_scaling" \notin Faults
                                                THEN (IF "scale_by_in_range" \in Faults THEN nEntries - nOut ELSE nEntries) ELSE 1)]]
  /\ act' = [name |-> "ReadModel"]
  /\ UNCHANGED <<poly, method, edges, density, nEntries, nOut>>

SetData(e, n, out) ==         \* fit.data = new histogram: other edges and number of entries; a NEW parametric model is built
  /\ Bounded("SetData") /\ e \in EdgeSets /\ n \in Entries /\ out \in {0, 2} /\ <<e, n, out>> # <<edges, nEntries, nOut>>
  /\ edges' = e /\ nEntries' = n /\ nOut' = out
  /\ stored' = (IF "new_model_keeps_old_bins" \in Faults THEN stored ELSE Bins(method, poly, e)) /\ stale' = FALSE
  /\ act' = [name |-> "SetData", edges |-> e, n |-> n, out |-> out] /\ obs' = [kind |-> "none"]
  /\ UNCHANGED <<poly, method, density>>

Rebin(e) ==             \* HistParametricModel.rebin(new edges): the same model object, other bin edges
  /\ Bounded("Rebin") /\ e \in EdgeSets /\ e # edges
  /\ edges' = e
  /\ stored' = [i \in 1..(Len(e) - 1) |-> 0] /\ stale' = ("rebin_keeps_zeros" \notin Faults)
  /\ act' = [name |-> "Rebin", edges |-> e] /\ obs' = [kind |-> "none"]
  /\ UNCHANGED <<poly, method, density, nEntries, nOut>>

Next == (\E c \in Polys : SetParams(c)) \/ ReadModel \/ (\E e \in EdgeSets, n \in Entries, out \in {0, 2} : SetData(e, n, out)) \/ (\E e \in EdgeSets : Rebin(e))
Spec == Init /\ [][Next]_vars

-----------------------------------------------------------------------------
(* C13 *)
ModelFollowsParams == act.name = "ReadModel" => obs.bins = Bins(method, poly, edges)
DensityScaling == act.name = "ReadModel" => \A i \in DOMAIN obs.bins : obs.fit[i] = obs.bins[i] * (IF density THEN nEntries ELSE 1)

(* exactness classes: Simpson exact up to degree 3 and NOT for 4; trapezoid and midpoint exact up to degree 1 and NOT for 2 *)
ExactFor(m, c) == \A e \in EdgeSets : \A i \in 1..(Len(e) - 1) : Rule960(m, c, e[i], e[i + 1]) = Exact960(c, e[i], e[i + 1])
ExactnessClasses ==
  /\ \A c \in Polys : Degree(c) <= 3 => ExactFor("simpson", c)
  /\ \A c \in Polys : Degree(c) <= 1 => (ExactFor("trapezoid", c) /\ ExactFor("midpoint", c))
  /\ ~ExactFor("simpson", <<0, 0, 0, 0, 1>>)
  /\ ~ExactFor("trapezoid", <<0, 0, 1, 0, 0>>) /\ ~ExactFor("midpoint", <<0, 0, 1, 0, 0>>)
(* textbook orders as exact identities for monomials: halving the bin [0, 2] divides the error by 2^order *)
Err(m, c, a, b) == Rule960(m, c, a, b) - Exact960(c, a, b)
ConvergenceOrders ==
  /\ Err("simpson", <<0, 0, 0, 0, 1>>, 0, 2) = 16 * (Err("simpson", <<0, 0, 0, 0, 1>>, 0, 1) + Err("simpson", <<0, 0, 0, 0, 1>>, 1, 2))
  /\ Err("trapezoid", <<0, 0, 1, 0, 0>>, 0, 2) = 4 * (Err("trapezoid", <<0, 0, 1, 0, 0>>, 0, 1) + Err("trapezoid", <<0, 0, 1, 0, 0>>, 1, 2))
  /\ Err("midpoint", <<0, 0, 1, 0, 0>>, 0, 2) = 4 * (Err("midpoint", <<0, 0, 1, 0, 0>>, 0, 1) + Err("midpoint", <<0, 0, 1, 0, 0>>, 1, 2))
=============================================================================
