---------------------------- MODULE GenHistFill ----------------------------
(* Path-tree generator for HistFill (see GenNexus.tla for the scheme). *)
EXTENDS HistFill
VARIABLE hist
GInit == Init /\ hist = <<act>>
GNext == Next /\ hist' = Append(hist, act')
GSpec == GInit /\ [][GNext]_<<vars, hist>>
Whats == {"data", "underflow", "overflow", "n_entries", "raw", "edges", "n_bins"}
PathOut == PrintT(ToJson([h |-> hist, a |-> act', o |-> obs']))
StateOut ==
  PrintT(ToJson([sh |-> hist,
                 idealAll |-> [w \in Whats |-> IdealRead(w)],
                 pending |-> Len(unprocessed), manual |-> manual]))
=============================================================================
