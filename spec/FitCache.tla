------------------------------ MODULE FitCache ------------------------------
(***************************************************************************)
(* One fit, layers L3-L5 glue (kafe2/fit/_base/fit.py and the per-type fit  *)
(* classes): C03, configuration part of C01, C10, rejected calls of C19.    *)
(*                                                                         *)
(* The computation graph is NOT written here: the harness exports it from   *)
(* a fit constructed from the working tree (node names, kinds, ordered      *)
(* children, the class attributes naming the nodes the fit marks / freezes) *)
(* and passes it in as constants, so TLC checks the wiring the code has.    *)
(*                                                                         *)
(* definition : declared sources (status), constraints, parameter values    *)
(*              (index into a small catalogue), fixed / limited sets, data  *)
(*              set, whether a fit has run                                  *)
(* mechanism  : stale / frozen flag per node, which node is minimised and   *)
(*              read as cost, the implicit-no-errors flag                   *)
(* ghost      : dirty[n] = configuration components against which the       *)
(*              cached value of n is out of date.  GHidden[n] is what the   *)
(*              zero-argument property node n REALLY reads (by the meaning  *)
(*              of its documented name); the graph only knows GChildren.    *)
(* Components: D data, Sd data-referenced sources, Sm model-referenced      *)
(*             sources, P parameter values, K constraint list contents.     *)
(***************************************************************************)
EXTENDS Naturals, Integers, Sequences, FiniteSets, SequencesExt, TLC, Json

CONSTANTS FitType,        \* "xy" | "indexed" | "hist" | "unbinned"
          GNodes, GKind, GChildren, GHidden,          \* exported graph + meaning table
          GBasic,         \* nodes marked by FitBase._on_error_change        (_BASIC_ERROR_NAMES)
          GDataNodes,     \* nodes marked by _set_new_data
          GModelErr,      \* _MODEL_ERROR_NODE_NAMES   (frozen around a minimisation)
          GProjected,     \* _PROJECTED_NODE_NAMES     (xy only)
          GParams,        \* parameter node names, in order
          GCostNoErr, GCostCov, GCostPoint,           \* cost node names ("-" if the type has none)
          GInitCost,      \* node minimised by a freshly constructed fit
          NData,          \* data set -> number of data points
          SrcNames, ConNames, Dea, MaxSources, MaxDepth, Off, Faults,
          ObsFilter        \* {} = every observable may be read; otherwise only these (keeps targeted configurations small)

VARIABLES stale, frozen, dirty,            \* per node
          costNode, implicitNoErr,
          status,                            \* source -> "absent" | "on" | "off"
          cons,                              \* set of constraint names added
          pidx,                              \* parameter -> 0 | 1 | 2   (2 = value found by the minimiser)
          fixed, limited, dataSet, didFit, ownSrc,
          act, obs

vars == <<stale, frozen, dirty, costNode, implicitNoErr, status, cons, pidx, fixed, limited, dataSet, didFit, ownSrc, act, obs>>

Comps == {"D", "Sd", "Sm", "P", "K"}

(* source catalogue: mirrors harness/fitlib.py SOURCES *)
SrcCat ==
  [ ey1 |-> [ref |-> "data", axis |-> "y", rel |-> FALSE, diag |-> TRUE],
    ey2 |-> [ref |-> "data", axis |-> "y", rel |-> TRUE, diag |-> FALSE],
    ey3 |-> [ref |-> "data", axis |-> "y", rel |-> FALSE, diag |-> FALSE],
    em1 |-> [ref |-> "model", axis |-> "y", rel |-> FALSE, diag |-> TRUE],
    em2 |-> [ref |-> "model", axis |-> "y", rel |-> TRUE, diag |-> TRUE],
    ex1 |-> [ref |-> "data", axis |-> "x", rel |-> FALSE, diag |-> TRUE],
    ex2 |-> [ref |-> "model", axis |-> "x", rel |-> TRUE, diag |-> FALSE] ]
ConExtraNdf == [c1 |-> 1, c2 |-> 2, c3 |-> 1, c4 |-> 2]     \* 1 per simple constraint, n per n-parameter matrix constraint

Present == {s \in SrcNames : status[s] # "absent"}
On == {s \in SrcNames : status[s] = "on"}
HasErrors == Present # {} \/ ownSrc
HasXErrors == \E s \in Present : SrcCat[s].axis = "x"
HasModelRel == \E s \in Present : SrcCat[s].ref = "model" /\ SrcCat[s].rel /\ SrcCat[s].axis = "y"
IdealDiagonal == \A s \in On : SrcCat[s].diag            \* is the total covariance matrix diagonal?
PosDef == (\E s \in On : s # "ex2") \/ ownSrc   \* ex2 is fully correlated: singular on its own
PosDefOld == On # {} \/ ownSrc                              \* restriction of C03: some enabled source whenever any is declared
(* A covariance-based chi2 is in use (the fit left the no-errors cost function for good when its first source was  *)
(* declared) but no enabled source is left: the total covariance is singular -- excluded by the statement of C03. *)
NeedsCov == GCostNoErr # "-" /\ ~implicitNoErr
WellPosed == IF NeedsCov THEN PosDef ELSE TRUE

-----------------------------------------------------------------------------
(* graph mechanism (same rules as Nexus.tla, specialised to the node kinds a fit uses) *)
ParentsOf == [n \in GNodes |-> {p \in GNodes : n \in Range(GChildren[p])}]      \* constant: evaluated once
Parents(n) == ParentsOf[n]

RECURSIVE MarkFrom(_, _)
MarkFrom(todo, st) ==
  IF todo = {} THEN st
  ELSE LET n == CHOOSE x \in todo : TRUE IN
       IF GKind[n] = "param" \/ st[n] \/ frozen[n] THEN MarkFrom(todo \ {n}, st)
       ELSE MarkFrom((todo \ {n}) \cup Parents(n), [st EXCEPT ![n] = TRUE])

RECURSIVE MarkFromF(_, _, _)           \* same with an explicit frozen function
MarkFromF(todo, st, fr) ==
  IF todo = {} THEN st
  ELSE LET n == CHOOSE x \in todo : TRUE IN
       IF GKind[n] = "param" \/ st[n] \/ fr[n] THEN MarkFromF(todo \ {n}, st, fr)
       ELSE MarkFromF((todo \ {n}) \cup Parents(n), [st EXCEPT ![n] = TRUE], fr)

(* S = [st, di] ; a node that is recomputed reads its own hidden inputs fresh and its children's cached values *)
RECURSIVE Upd(_, _, _), Val(_, _, _)
Val(n, S, fr) == IF S.st[n] /\ ~fr[n] THEN Upd(n, S, fr) ELSE S
Upd(n, S, fr) ==
  LET S1 == FoldLeft(LAMBDA T, c : Val(c, T, fr), S, GChildren[n])
  IN [st |-> [S1.st EXCEPT ![n] = FALSE],
      di |-> [S1.di EXCEPT ![n] = UNION {S1.di[c] : c \in Range(GChildren[n])}]]

(* true transitive inputs of a node *)
RECURSIVE TrueInputs(_)
TrueInputs(n) == GHidden[n] \cup UNION {TrueInputs(c) : c \in Range(GChildren[n])}
TI == [n \in GNodes |-> TrueInputs(n)]                                          \* constant: evaluated once
Change(C, di) == [n \in GNodes |-> di[n] \cup (C \cap TI[n])]

-----------------------------------------------------------------------------
Bounded(name) == TLCGet("level") <= MaxDepth /\ name \notin Off

Init ==
  /\ stale = [n \in GNodes |-> GKind[n] # "param"]
  /\ frozen = [n \in GNodes |-> FALSE]
  /\ dirty = [n \in GNodes |-> {}]
  /\ costNode = GInitCost
  /\ implicitNoErr = (GInitCost = GCostNoErr)
  /\ status = [s \in SrcNames |-> "absent"]
  /\ cons = {}
  /\ pidx = [p \in Range(GParams) |-> 0]
  /\ fixed = {} /\ limited = {}
  /\ dataSet = "d0" /\ didFit = FALSE /\ ownSrc = FALSE
  /\ act = [name |-> "Init", type |-> FitType, dea |-> Dea] /\ obs = [kind |-> "none"]

(* FitBase._on_error_change: reset minimiser, mark the basic error nodes, leave the no-errors cost function *)
ErrorChange(st) == MarkFrom(GBasic, st)
(* leave the no-errors cost function for good; leave the pointwise cost function chosen by the last fit (it ignores correlations) *)
SwitchCost == IF implicitNoErr THEN GCostCov
              ELSE IF costNode = GCostPoint /\ GCostPoint # "-" /\ "pointwise_kept" \notin Faults THEN GCostCov ELSE costNode

SourceEdit(s, newStatus, nm) ==
  /\ LET c == IF SrcCat[s].ref = "data" THEN "Sd" ELSE "Sm"
         reaches == ~(c = "Sm" /\ "model_callback_missing" \in Faults)
     IN /\ dirty' = Change({c}, dirty)
        /\ stale' = IF reaches THEN ErrorChange(stale) ELSE stale
        /\ costNode' = IF reaches THEN SwitchCost ELSE costNode
        /\ implicitNoErr' = IF reaches THEN FALSE ELSE implicitNoErr
        /\ didFit' = IF reaches THEN FALSE ELSE didFit          \* _on_error_change resets the minimiser: the fit is no longer "done"
  /\ status' = [status EXCEPT ![s] = newStatus]
  /\ act' = [name |-> nm, n |-> s] /\ obs' = [kind |-> "none"]
  /\ UNCHANGED <<frozen, cons, pidx, fixed, limited, dataSet, ownSrc>>

AddSource(s) ==
  /\ Bounded("AddSource") /\ s \in SrcNames /\ status[s] = "absent" /\ Cardinality(Present) < MaxSources
  /\ SourceEdit(s, "on", "AddSource")
Disable(s) == /\ Bounded("Disable") /\ s \in SrcNames /\ status[s] = "on" /\ SourceEdit(s, "off", "Disable")
Enable(s) == /\ Bounded("Enable") /\ s \in SrcNames /\ status[s] = "off" /\ SourceEdit(s, "on", "Enable")

AddConstraint(c) ==
  /\ Bounded("AddConstraint") /\ c \in ConNames /\ c \notin cons /\ Cardinality(cons) < 2
  /\ cons' = cons \cup {c}
  /\ dirty' = Change({"K"}, dirty)
  /\ stale' = IF "constraint_no_mark" \in Faults THEN stale ELSE MarkFrom({"parameter_constraints"} \cap DOMAIN GKind, stale)      \* (a graph without that node: nothing to mark)
  /\ act' = [name |-> "AddConstraint", c |-> c] /\ obs' = [kind |-> "none"]
  /\ UNCHANGED <<frozen, costNode, implicitNoErr, status, pidx, fixed, limited, dataSet, didFit, ownSrc>>

SetParam(p, i) ==
  /\ Bounded("SetParam") /\ p \in Range(GParams) /\ i \in {0, 1} /\ pidx[p] # i
  /\ pidx' = [pidx EXCEPT ![p] = i]
  /\ dirty' = Change({"P"}, dirty)
  /\ stale' = IF "set_no_notify" \in Faults THEN stale ELSE MarkFrom(Parents(p), stale)
  /\ didFit' = FALSE
  /\ act' = [name |-> "SetParam", p |-> p, i |-> i] /\ obs' = [kind |-> "none"]
  /\ UNCHANGED <<frozen, costNode, implicitNoErr, status, cons, fixed, limited, dataSet, ownSrc>>

SetAllParams(i) ==
  /\ Bounded("SetAllParams") /\ i \in {0, 1} /\ \E p \in Range(GParams) : pidx[p] # i
  /\ pidx' = [p \in Range(GParams) |-> i]
  /\ dirty' = Change({"P"}, dirty)
  /\ stale' = MarkFrom(UNION {Parents(p) : p \in Range(GParams)}, stale)
  /\ didFit' = FALSE
  /\ act' = [name |-> "SetAllParams", i |-> i] /\ obs' = [kind |-> "none"]
  /\ UNCHANGED <<frozen, costNode, implicitNoErr, status, cons, fixed, limited, dataSet, ownSrc>>

(* fix / release / limit / unlimit: minimiser bookkeeping only, nothing in the graph *)
Bookkeeping(nm, p, f2, l2) ==
  /\ fixed' = f2 /\ limited' = l2
  /\ act' = [name |-> nm, p |-> p] /\ obs' = [kind |-> "none"]
  /\ UNCHANGED <<stale, frozen, dirty, costNode, implicitNoErr, status, cons, pidx, dataSet, didFit, ownSrc>>
Fix(p) == /\ Bounded("Fix") /\ p \in Range(GParams) /\ p \notin fixed /\ Cardinality(fixed) + 1 < Len(GParams)
          /\ Bookkeeping("Fix", p, fixed \cup {p}, limited)
Release(p) == /\ Bounded("Release") /\ p \in fixed /\ Bookkeeping("Release", p, fixed \ {p}, limited)
Limit(p) == /\ Bounded("Limit") /\ p \in Range(GParams) /\ p \notin limited /\ Bookkeeping("Limit", p, fixed, limited \cup {p})
Unlimit(p) == /\ Bounded("Unlimit") /\ p \in limited /\ Bookkeeping("Unlimit", p, fixed, limited \ {p})

(* fit.data = ... : d1 raw arrays, d2 a container that brings its own source.                       *)
(* KNOWN FINDING KF-C03-DATA-MODEL-SOURCES: the parametric model is re-created, sources declared    *)
(* with reference='model' are silently dropped; the action is therefore offered only while no       *)
(* model-referenced source is declared.                                                             *)
SetData(d) ==
  /\ Bounded("SetData") /\ d \in {"d1", "d2"} /\ d # dataSet
  /\ FitType = "unbinned" => d = "d1"                        \* unbinned containers carry no sources
  /\ "kf_model_sources_lost" \in Faults \/ \A s \in Present : SrcCat[s].ref = "data"
  /\ dataSet' = d /\ ownSrc' = (d = "d2")
  /\ status' = [s \in SrcNames |-> "absent"]               \* the new container replaces the old one and its sources
  /\ dirty' = Change({"D", "Sd", "Sm"}, dirty)
  /\ LET marks == IF "data_no_error_marks" \in Faults THEN GDataNodes ELSE GDataNodes \cup GBasic
         sw == implicitNoErr /\ d = "d2"
     IN /\ stale' = MarkFrom(marks, stale)
        /\ costNode' = IF sw THEN GCostCov ELSE IF implicitNoErr THEN costNode ELSE SwitchCost
        /\ implicitNoErr' = IF sw THEN FALSE ELSE implicitNoErr
        /\ didFit' = IF sw THEN FALSE ELSE didFit           \* leaving the no-errors cost function goes through _on_error_change
  /\ act' = [name |-> "SetData", d |-> d] /\ obs' = [kind |-> "none"]
  /\ UNCHANGED <<frozen, cons, pidx, fixed, limited>>

-----------------------------------------------------------------------------
(* do_fit, as the code performs it *)
FreezeSet(first) ==
  LET base == IF first \/ ~HasModelRel \/ Dea = "iterative" THEN GModelErr ELSE {}
  IN IF FitType = "xy" /\ (Dea = "iterative" \/ (first /\ HasXErrors)) THEN GProjected \cup base ELSE base
SecondPass == (HasModelRel \/ (FitType = "xy" /\ HasXErrors))

(* one pass: [st, di, fr] -> [st, di, fr] *)
Pass(S0, first, cnode) ==
  LET F == FreezeSet(first)
      \* _pre_fit_iteration: node.update(); node.freeze()
      S1 == FoldLeft(LAMBDA T, n : IF n \in F THEN Upd(n, T, S0.fr) ELSE T, [st |-> S0.st, di |-> S0.di], SetToSeq(F))
      fr1 == [n \in GNodes |-> S0.fr[n] \/ n \in F]
      \* minimise: parameter nodes assigned, frozen nodes block the notification, cost re-evaluated at the end
      di2 == Change({"P"}, S1.di)
      st2 == MarkFromF(UNION {Parents(p) : p \in Range(GParams)}, S1.st, fr1)
      S3 == Val(cnode, [st |-> st2, di |-> di2], fr1)
      \* _post_fit_iteration: unfreeze (stale + notify), update, notify_parents
      unf == IF "skip_unfreeze" \in Faults THEN F \ GModelErr ELSE F
      fr4 == [n \in GNodes |-> fr1[n] /\ n \notin unf]
      st4 == MarkFromF(UNION {Parents(n) : n \in unf}, [n \in GNodes |-> S3.st[n] \/ n \in unf], fr4)
      S5 == FoldLeft(LAMBDA T, n : IF n \in unf THEN Val(n, T, fr4) ELSE T, [st |-> st4, di |-> S3.di], SetToSeq(unf))
  IN [st |-> S5.st, di |-> S5.di, fr |-> fr4]

DoFit ==
  /\ Bounded("DoFit") /\ WellPosed
  /\ LET cnode == IF GCostPoint = "-" \/ implicitNoErr THEN costNode
                  ELSE IF IdealDiagonal THEN GCostPoint ELSE GCostCov
         \* is_diagonal(self.total_cov_mat) reads the node first
         S0 == Val("total_cov_mat", [st |-> stale, di |-> dirty], frozen)
         P1 == Pass([st |-> S0.st, di |-> S0.di, fr |-> frozen], TRUE, cnode)
         P2 == IF SecondPass THEN Pass(P1, FALSE, cnode) ELSE P1
     IN /\ stale' = P2.st /\ dirty' = P2.di /\ frozen' = P2.fr
        /\ costNode' = cnode
  /\ pidx' = [p \in Range(GParams) |-> IF p \in fixed THEN pidx[p] ELSE 2]
  /\ didFit' = TRUE
  /\ act' = [name |-> "DoFit"] /\ obs' = [kind |-> "none"]
  /\ UNCHANGED <<implicitNoErr, status, cons, fixed, limited, dataSet, ownSrc>>

-----------------------------------------------------------------------------
(* reads *)
ObsNodes(o) ==
  CASE o = "cost" -> {costNode}
    [] o = "total_cov" -> {"total_cov_mat"}
    [] o = "total_error" -> {"total_error"}
    [] o = "gof" -> Range(GChildren[IF GCostPoint # "-" /\ ~implicitNoErr /\ IdealDiagonal THEN GCostPoint
                                     ELSE IF implicitNoErr THEN GCostNoErr ELSE IF GCostCov # "-" THEN GCostCov ELSE costNode])
    [] o = "chi2p" -> {costNode}
    [] OTHER -> {}                     \* read directly from the containers / minimiser, not through the graph

IdealNdf == NData[dataSet] - Len(GParams) + Cardinality(fixed) + FoldLeft(LAMBDA a, c : a + ConExtraNdf[c], 0, SetToSeq(cons))

GraphObs == {"cost", "total_cov", "total_error", "gof", "chi2p"}
PlainObs == {"model", "data", "data_error", "data_cov", "model_error", "model_cov", "total_inv", "ndf", "pvals", "perrs", "pcov",
             "did_fit", "has_errors", "result", "fixed", "limited"} \cup (IF FitType = "xy" THEN {"x_total_error"} ELSE {})

Read(o) ==
  /\ Bounded("Read") /\ o \in GraphObs \cup PlainObs /\ (ObsFilter = {} \/ o \in ObsFilter)
  /\ o \in {"cost", "gof", "chi2p", "result", "total_inv"} => WellPosed
  /\ LET S == FoldLeft(LAMBDA T, n : Val(n, T, frozen), [st |-> stale, di |-> dirty], SetToSeq(ObsNodes(o)))
     IN /\ stale' = S.st /\ dirty' = S.di
        /\ obs' = [kind |-> "value", clean |-> \A n \in ObsNodes(o) : S.di[n] = {},
                   ndf |-> IdealNdf, did_fit |-> didFit, has_errors |-> HasErrors,
                   fixed |-> fixed, limited |-> limited]
  /\ act' = [name |-> "Read", o |-> o]
  /\ UNCHANGED <<frozen, costNode, implicitNoErr, status, cons, pidx, fixed, limited, dataSet, didFit, ownSrc>>

(* rejected calls: nothing may change *)
RejectKinds == {"SetParamUnknown", "FixUnknown", "LimitUnknown", "DisableUnknown", "AddConstraintUnknown",
                "ConstraintNonSymmetric", "ConstraintWrongShape", "ConstraintCorDiagonal", "ConstraintLengthMismatch",
                "SetAllParamsWrongLength", "LimitNoBounds", "AddSourceUnknownAxis"}
                \cup (IF FitType = "hist" THEN {"SetDataPoissonNegative", "SetDataPoissonFractional", "SetDataWrongType"} ELSE {})
                \cup (IF FitType = "xy" THEN {"SetDataWrongType"} ELSE {})
Rejected(k) ==
  /\ Bounded("Rejected") /\ "rejects" \notin Off /\ k \in RejectKinds
  /\ act' = [name |-> k] /\ obs' = [kind |-> "reject"]
  /\ UNCHANGED <<stale, frozen, dirty, costNode, implicitNoErr, status, cons, pidx, fixed, limited, dataSet, didFit, ownSrc>>
BadSourceKinds == {"size", "negative", "corr", "reference"}
AddSourceBad(b) ==
  /\ Bounded("AddSourceBad") /\ "rejects" \notin Off /\ b \in BadSourceKinds /\ FitType # "unbinned"
  /\ act' = [name |-> "AddSourceBad", bad |-> b, n |-> "-"] /\ obs' = [kind |-> "reject"]
  /\ UNCHANGED <<stale, frozen, dirty, costNode, implicitNoErr, status, cons, pidx, fixed, limited, dataSet, didFit, ownSrc>>
AddSourceDuplicate(s) ==
  /\ Bounded("AddSourceDuplicate") /\ "rejects" \notin Off /\ s \in Present
  /\ act' = [name |-> "AddSourceBad", bad |-> "duplicate", n |-> s] /\ obs' = [kind |-> "reject"]
  /\ UNCHANGED <<stale, frozen, dirty, costNode, implicitNoErr, status, cons, pidx, fixed, limited, dataSet, didFit, ownSrc>>

(* fit.to_file followed by from_file: a position marker -- the replay keeps the original object alive next to the   *)
(* reloaded one, applies every later step to both and compares what they report (C09).                             *)
Reload ==
  /\ Bounded("Reload")
  /\ act' = [name |-> "Reload"] /\ obs' = [kind |-> "none"]
  /\ UNCHANGED <<stale, frozen, dirty, costNode, implicitNoErr, status, cons, pidx, fixed, limited, dataSet, didFit, ownSrc>>

Next ==
  \/ Reload
  \/ \E s \in SrcNames : AddSource(s)
  \/ \E s \in SrcNames : Disable(s)
  \/ \E s \in SrcNames : Enable(s)
  \/ \E c \in ConNames : AddConstraint(c)
  \/ \E p \in Range(GParams), i \in {0, 1} : SetParam(p, i)
  \/ \E i \in {0, 1} : SetAllParams(i)
  \/ \E p \in Range(GParams) : Fix(p)
  \/ \E p \in Range(GParams) : Release(p)
  \/ \E p \in Range(GParams) : Limit(p)
  \/ \E p \in Range(GParams) : Unlimit(p)
  \/ \E d \in {"d1", "d2"} : SetData(d)
  \/ DoFit
  \/ \E o \in GraphObs \cup PlainObs : Read(o)
  \/ \E k \in RejectKinds : Rejected(k)
  \/ \E b \in BadSourceKinds : AddSourceBad(b)
  \/ \E s \in SrcNames : AddSourceDuplicate(s)

Spec == Init /\ [][Next]_vars

-----------------------------------------------------------------------------
(* Properties *)
ReadCorrect == (act.name = "Read" /\ obs.kind = "value") => obs.clean

(* mechanism lemma: a fresh, unfrozen node is up to date with everything it really depends on *)
FreshIsClean == \A n \in GNodes : (~stale[n] /\ ~frozen[n] /\ GKind[n] # "param") => dirty[n] = {}

NothingPinnedAfterFit == \A n \in GNodes : ~frozen[n]

(* C01: the no-errors cost function is in use exactly while no source has ever been declared *)
CostNodeSelection ==
  /\ implicitNoErr => (Present = {} /\ ~ownSrc)
  /\ (GCostNoErr # "-" /\ costNode = GCostNoErr) => implicitNoErr
  /\ (GCostPoint # "-" /\ costNode = GCostPoint) => IdealDiagonal      \* the pointwise cost is only ever read while no enabled source is correlated

ReadsAreSilent ==
  [][act'.name = "Read" => UNCHANGED <<status, cons, pidx, fixed, limited, dataSet, didFit, ownSrc, costNode, implicitNoErr, frozen>>]_vars

RejectLeavesUnchanged ==
  [][obs'.kind = "reject" => UNCHANGED <<stale, frozen, dirty, costNode, implicitNoErr, status, cons, pidx, fixed, limited, dataSet, didFit, ownSrc>>]_vars
=============================================================================
