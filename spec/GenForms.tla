----------------------------- MODULE GenForms -----------------------------
EXTENDS Forms
VARIABLE hist
GInit == Init /\ hist = <<act>>
GNext == Next /\ hist' = Append(hist, act')
GSpec == GInit /\ [][GNext]_<<vars, hist>>
PathOut == PrintT(ToJson([h |-> hist, a |-> act', o |-> obs']))
StateOut == PrintT(ToJson([sh |-> hist, total |-> Total(left), cons |-> ConsNormal(left), setup |-> SetupOf(left)]))
=============================================================================
