"""Independent evaluator of the specifications' symbolic definitions (DESIGN 2, oracle 3; trusted base).

Given the DECLARED configuration -- data, model function, enabled sources, constraints, parameter point, cost identifier --
compute the documented -2 log L, the saturated cost / goodness of fit, the chi2 probability and ndf with plain numpy / scipy,
never touching kafe2's graph, containers or cost classes.
"""
import numpy as np
from scipy import stats

from . import fitlib as fl


def canonical_cost(cost_id, table):
    """Map any identifier of a STRING_TO_COST_FUNCTION table to a canonical kind via the class + kwargs it denotes."""
    cls, kw = table[cost_id]
    n = cls.__name__
    if "Chi2" in n:
        etu = kw.get("errors_to_use", "covariance")
        kind = "chi2_no_errors" if etu is None else ("chi2_pointwise" if etu == "pointwise" else "chi2")
        return dict(kind=kind, logdet=kw.get("add_determinant_cost", True) and etu is not None)
    if "NegLogLikelihood" in n and "Unbinned" not in n:
        dist = kw.get("data_point_distribution", "poisson")
        return dict(kind=("nllr_" if kw.get("ratio", False) else "nll_") + dist, logdet=False)
    if "GaussApproximation" in n:
        return dict(kind="gauss_pointwise" if kw.get("errors_to_use", "covariance") == "pointwise" else "gauss", logdet=kw.get("add_determinant_cost", True))
    if "Unbinned" in n:
        return dict(kind="unbinned_nll", logdet=False)
    raise ValueError(cost_id)


def model_values(ftype, data_def, p):
    if ftype == "xy":
        x = np.asarray(data_def["x"], dtype=float)
        return p[0] * x + p[1], np.full_like(x, p[0])
    if ftype == "xyq":
        x = np.asarray(data_def["x"], dtype=float)
        return p[0] * x ** 2 + p[1] * x + p[2], 2 * p[0] * x + p[1]
    if ftype == "indexed":
        return p[0] * np.array(fl.X0) + p[1], None
    if ftype == "hist":
        # bin contents: N * integral of the density over each bin (the fits of the catalogue use Simpson's rule; the normal
        # density is smooth enough that the exact integral agrees to ~1e-4 -- the rule itself is covered by C13)
        edges = np.asarray(data_def["edges"], dtype=float)
        a, b = edges[:-1], edges[1:]
        c = 0.5 * (a + b)
        f = lambda x: fl.normal_density(x, p[0], p[1])
        return data_def["n"] * (b - a) / 6.0 * (f(a) + 4 * f(c) + f(b)), None
    if ftype == "unbinned":
        return fl.normal_density(np.asarray(data_def["y"], dtype=float), p[0], p[1]), None
    raise ValueError(ftype)


def data_def(ftype, ds):
    if ftype in ("xy", "xyq"):
        if ftype == "xyq":
            return dict(x=fl.XQ, y=fl.YQ)
        return dict(x=fl.X0, y=fl.Y0) if ds == "d0" else dict(x=fl.X1, y=fl.Y1)
    if ftype == "indexed":
        return dict(y=fl.Y0 if ds == "d0" else fl.Y1)
    if ftype == "hist":
        sample = fl.H0 if ds == "d0" else fl.H1
        counts, edges = np.histogram(sample, bins=5, range=(0.0, 5.0))
        return dict(y=counts.astype(float), edges=edges, n=len(sample))
    if ftype == "unbinned":
        return dict(y=fl.H0 if ds == "d0" else fl.H1)
    raise ValueError(ftype)


def source_cov(spec, ref_vals, n):
    sig = np.full(n, spec["size"], dtype=float)
    if spec["rel"]:
        sig = sig * np.asarray(ref_vals, dtype=float)
    rho = spec["corr"]
    cor = np.full((n, n), rho) + np.eye(n) * (1.0 - rho)
    return np.outer(sig, sig) * cor


def total_covariance(ftype, dd, p, on_sources, own_src):
    """Sum of the ENABLED declared sources; x sources projected with the model slope."""
    y = np.asarray(dd["y"], dtype=float)
    n = len(y)
    m, slope = model_values(ftype, dd, p)
    vy, vx = np.zeros((n, n)), np.zeros((n, n))
    for name in on_sources:
        s = fl.SOURCES[name]
        if s["axis"] == "y":
            ref = y if s["ref"] == "data" else m
            if ftype == "hist" and s["ref"] == "model":
                ref = m   # documented: relative to the model (bin contents)
            vy += source_cov(s, ref, n)
        else:
            ref = np.asarray(dd["x"], dtype=float)
            vx += source_cov(s, ref, n)
    if own_src:
        vy += np.eye(n) * 0.4 ** 2
    if slope is not None:
        vy = vy + vx * np.outer(slope, slope)
    return vy


def constraint_cost(ftype, cons, p):
    c = 0.0
    for name in cons:
        d = fl.CONSTRAINTS[name]
        if d["kind"] == "simple":
            unc = d["unc"] * d["value"] if d.get("relative") else d["unc"]
            c += ((p[d["name"]] - d["value"]) / unc) ** 2
        else:
            k = len(d["values"])
            r = np.asarray(p[:k], dtype=float) - np.asarray(d["values"])
            cov = np.asarray(d["cov"], dtype=float)
            if d.get("relative"):
                cov = cov * np.outer(d["values"], d["values"])
            c += float(r @ np.linalg.solve(cov, r))
    return c


def expected(ftype, cost, ds, p, on_sources, cons, own_src=False, n_fixed=0, implicit_no_errors=False):
    """cost: dict(kind, logdet). Returns dict(cost, gof, chi2p, ndf, cov)."""
    dd = data_def(ftype, ds)
    y = np.asarray(dd["y"], dtype=float)
    p = [float(v) for v in p]
    m, _ = model_values(ftype, dd, p)
    V = total_covariance(ftype, dd, p, on_sources, own_src)
    kind = "chi2_no_errors" if implicit_no_errors else cost["kind"]
    cc = constraint_cost(ftype, cons, p)
    out = dict(cov=V)
    r = y - m
    logdet = 0.0
    if kind == "chi2_no_errors":
        base, sat = float(r @ r), 0.0
    elif kind in ("chi2", "chi2_pointwise"):
        if kind == "chi2_pointwise":
            V = np.diag(np.diag(V))
        base = float(r @ np.linalg.solve(V, r))
        sat = 0.0
        if cost["logdet"]:
            logdet = float(np.linalg.slogdet(V)[1])
    elif kind in ("nll_poisson", "nllr_poisson"):
        ll = float(np.sum(stats.poisson.logpmf(y, m)))
        lsat = float(np.sum(stats.poisson.logpmf(y, y)))
        base = -2 * ll if kind == "nll_poisson" else -2 * (ll - lsat)
        sat = -2 * lsat if kind == "nll_poisson" else 0.0
    elif kind in ("nll_gaussian", "nllr_gaussian"):
        s = np.sqrt(np.diag(V))
        ll = float(np.sum(stats.norm.logpdf(y, m, s)))
        lsat = float(np.sum(stats.norm.logpdf(y, y, s)))
        base = -2 * ll if kind == "nll_gaussian" else -2 * (ll - lsat)
        sat = -2 * lsat if kind == "nll_gaussian" else 0.0
    elif kind in ("gauss", "gauss_pointwise"):
        W = V + np.diag(m)
        if kind == "gauss_pointwise":
            W = np.diag(np.diag(W))
        base = float(r @ np.linalg.solve(W, r))
        sat = 0.0
        if cost["logdet"]:
            logdet = float(np.linalg.slogdet(W)[1])
    elif kind == "unbinned_nll":
        base, sat = -2.0 * float(np.sum(np.log(m))), None
    else:
        raise ValueError(kind)
    out["cost"] = base + logdet + cc
    npar = len(fl.PARAMS[ftype])
    extra = sum(1 if fl.CONSTRAINTS[c]["kind"] == "simple" else len(fl.CONSTRAINTS[c]["values"]) for c in cons)
    out["ndf"] = len(y) + extra - npar + n_fixed
    out["gof"] = None if sat is None else base + cc - sat
    is_chi2 = kind.startswith("chi2")
    out["chi2p"] = float(stats.chi2.sf(base + cc, out["ndf"])) if is_chi2 else None
    return out
