"""C10 -- degrees of freedom, goodness of fit and chi2 probability follow the documented formulas.

Spec: FitCache.tla (NdfFormula: IdealNdf = data points + constraint measurements - parameters + fixed, exact integers, carried by every
state; histories over fix / release in any order, simple and matrix constraints, sources, data replacement, fits).  The replay compares
fit.ndf with the specification's integer at every step, and goodness_of_fit / chi2_probability with the independent evaluator
(cost minus saturated cost; chi2 upper tail of the cost without its determinant term).  Multi-fits: see C11.
"""
from .. import fitgraph as fg
from ..core import Report
from . import common as cm

INVARIANTS = ["ReadCorrect", "CostNodeSelection"]
NDF_OFF = ("rejects", "Limit", "Unlimit", "SetParam", "Disable", "Enable")


def _replay(walk):
    from ..adapters.fiteval import replay_walk
    return replay_walk(walk, what=("ndf", "gof", "chi2p"))


def run(tier, seed, faults=()):
    rep = Report("C10", tier, seed, "model_checking")
    for ftype in ("xy", "indexed", "hist", "unbinned"):
        g = fg.export(ftype)
        mod = {"FCRun.tla": fg.tla_module(g), "GenFCRun.tla": fg.tla_module(g, base="GenFitCache", name="GenFCRun")}
        c = fg.cfg_constants(g, "nonlinear", 6 if tier == "quick" else 7, max_sources=1, off=("rejects", "Limit", "Unlimit", "SetParam", "Read"),
                             faults=faults, cons=("c1", "c2", "c3"))
        mc = cm.tlc.run_mc("FCRun", cm.mc_cfg(c, INVARIANTS, []), workers=16, timeout=3000, coverage=False, extra_files=mod)
        rep.coverage["states"] = rep.coverage.get("states", 0) + mc["distinct"]
        rep.coverage["transitions"] = rep.coverage.get("transitions", 0) + mc["generated"]
        if mc["violated"]:
            rep.violation("TLC: %s violated in FitCache.tla on the exported %s graph" % (mc["violated"], ftype), "", dict(tlc_trace=mc.get("trace")))
            return rep
        depth, cap = (4, 2500) if tier == "quick" else (5, 40000)
        c = fg.cfg_constants(g, "nonlinear", depth, max_sources=1, off=NDF_OFF, faults=faults, cons=("c1", "c2", "c3"), obs_filter=("ndf", "gof"))
        cm.run_replay_stage(rep, "GenFCRun", cm.gen_cfg(c), _replay, "%s: %d steps (fix / release / constraints / sources / data / fit)" % (ftype, depth),
                            extra_files=mod, max_histories=cap, seed=seed, chunk=50)
        c = fg.cfg_constants(g, "nonlinear", 10, max_sources=2, off=("rejects",), faults=faults, cons=("c1", "c2", "c3"), obs_filter=("ndf", "gof", "chi2p"))
        cm.run_replay_stage(rep, "GenFCRun", cm.gen_cfg(c), _replay, "%s: simulate" % ftype, simulate=(10 if tier == "quick" else 150, 10, seed + 1),
                            extra_files=mod, max_histories=1200 if tier == "quick" else 30000, seed=seed, chunk=50)
    # multi-fits: ndf, goodness of fit and chi2 probability (MultiFit.tla histories; the final probe reads all of them)
    from ..adapters.multifit import replay_walk as multi_replay
    from .c11 import constants as mconst
    for pat in ("shared", "chain"):
        cm.run_replay_stage(rep, "GenMultiFit", cm.gen_cfg(mconst(pat, 3, off=("Read", "SetPar"), faults=faults)), multi_replay,
                            "multi-fit %s: all histories of fix / release / constraints / shared sources / fit, 3 steps" % pat,
                            max_histories=400 if tier == "quick" else 6000, seed=seed, chunk=10)
    rep.assumptions += ["goodness of fit and chi2 probability compared at 1e-6 relative with numpy/scipy evaluations of the documented formulas",
                        "UnbinnedFit documents no goodness of fit (returns None): only ndf is checked there"]
    rep.coverage["trusted_base"] = ["TLC", "harness/evaluator.py", "scipy.stats.chi2.sf"]
    return rep


def replay(path, tier, seed):
    return cm.replay_file(Report("C10", tier, seed, "model_checking"), path, _replay, "GenFCRun")
