"""C09 -- saving and reloading any object reproduces it.

Specs: FileIO.tla (handle protocol: one document per path, read returns the last written object, own / base / other class);
ErrorModel.tla + FitCache.tla with a Reload action at every position of their histories (a reloaded object must be indistinguishable
in every later step).  Binding: real files; a catalogue of 22 configured objects (containers, parametric models, constraints, fits).
"""
from .. import fitgraph as fg
from ..core import Report
from . import common as cm
from .c02 import constants as em_constants


def fileio_constants(objects, depth, faults=()):
    return dict(Objects=list(objects), MaxDepth=depth, Off=[], Faults=list(faults))


def run(tier, seed, faults=()):
    from ..adapters.errormodel import replay_walk as em_replay
    from ..adapters.fileio import OBJECTS, replay_reload_walk, replay_walk
    rep = Report("C09", tier, seed, "model_checking")
    # (1) handle protocol
    small = OBJECTS[:4]
    if not cm.run_mc_stage(rep, "FileIO", cm.mc_cfg(fileio_constants(small, 6, faults), ["ExactlyOneDocument", "ReadReturnsLastWritten", "NeverGarbled"], []),
                           ["Write", "Read", "Rewrite"], label="FileIO"):
        return rep
    # every object: write, read through own / base / other class, rewrite, read  (depth 4 with one object each = the full round trip + 2nd cycle)
    for obj in OBJECTS:
        cm.run_replay_stage(rep, "GenFileIO", cm.gen_cfg(fileio_constants([obj], 4, faults)), replay_walk, "file protocol: %s" % obj, chunk=4)
    # write-write-read with different kinds on one path
    mixed = ["c_xy", "k_simple_rel", "f_indexed_fit", "m_xy", "c_hist_manual"]
    cm.run_replay_stage(rep, "GenFileIO", cm.gen_cfg(fileio_constants(mixed, 3, faults)), replay_walk, "file protocol: several kinds on one path",
                        max_histories=250 if tier == "quick" else 5000, seed=seed, chunk=4)
    # (2) containers / models: Reload at every position of the ErrorModel histories
    from .c02 import ACTIONS as EM_ACTIONS, INVARIANTS as EM_INV, PROPERTIES as EM_PROP
    for kind in ("indexed", "xy", "hist", "indexedmodel", "xymodel", "histmodel"):
        if not cm.run_mc_stage(rep, "ErrorModel", cm.mc_cfg(em_constants(kind, 6 if tier == "quick" else 8, faults=faults, reload=True), EM_INV, EM_PROP),
                               EM_ACTIONS[kind] + ["Reload"], label="ErrorModel+Reload/" + kind):
            return rep
        d = 3 if tier == "quick" else 4
        cm.run_replay_stage(rep, "GenErrorModel", cm.gen_cfg(em_constants(kind, d, off=("rejects", "Copy"), faults=faults, max_sources=2, reload=True)),
                            em_replay, "%s: Reload at every position, %d steps" % (kind, d), max_histories=1500 if tier == "quick" else 30000, seed=seed)
    # (3) fits: Reload marker in FitCache histories, original kept alive next to the reloaded object
    for ftype in ("xy", "indexed", "hist", "unbinned"):
        g = fg.export(ftype)
        mod = {"GenFCRun.tla": fg.tla_module(g, base="GenFitCache", name="GenFCRun")}
        off = ("rejects", "Limit", "Unlimit", "Release", "SetParam", "SetData")
        c = fg.cfg_constants(g, "nonlinear", 3 if tier == "quick" else 4, max_sources=2, off=off, faults=faults, cons=("c1", "c4"),
                             obs_filter=("cost", "total_cov", "pvals", "result"), reload=True)
        cm.run_replay_stage(rep, "GenFCRun", cm.gen_cfg(c), replay_reload_walk, "%s fit: Reload at every position" % ftype, extra_files=mod,
                            max_histories=700 if tier == "quick" else 20000, seed=seed, chunk=10)
    rep.assumptions += ["text-level fidelity of YAML is observed only through what the reader reconstructs",
                        "asymmetric errors in result dict / preface compared only when present on both sides (lazily computed, documented)",
                        "fit data replacement after a reload is not exercised (known finding KF-C03-DATA-MODEL-SOURCES applies to both objects alike)"]
    rep.coverage["trusted_base"] = ["TLC", "harness/adapters/fileio.py (object catalogue + projections)", "harness/adapters/errormodel.py"]
    return rep


def replay(path, tier, seed):
    import json
    from ..adapters.errormodel import replay_walk as em_replay
    from ..adapters.fileio import replay_reload_walk, replay_walk
    obj = json.load(open(path))
    fn = {"GenFileIO": replay_walk, "GenErrorModel": em_replay, "GenFCRun": replay_reload_walk}[obj.get("spec", "GenFileIO")]
    return cm.replay_file(Report("C09", tier, seed, "model_checking"), path, fn, obj.get("spec", "GenFileIO"))
