"""C11 -- a multi-fit is the sum of its parts, or the joint fit if errors are shared (spec/MultiFit.tla)."""
from ..core import Report
from . import common as cm

ACTIONS = ["SetPar", "FixPar", "ReleasePar", "AddConstraint", "AddSource", "DoFit", "Read"]
INVARIANTS = ["Mirrored", "SymmetricLayout", "EverySourceOnItsDiagonal"]
PROPERTIES = ["FixedKeepValue"]
PATTERNS = ["disjoint", "shared", "chain", "nonadj", "mixed", "reorder", "xyshared", "single"]


def constants(pattern, depth, off=(), faults=()):
    return dict(Pattern='"%s"' % pattern, MaxDepth=depth, Off=list(off), Faults=list(faults))


def run(tier, seed, faults=()):
    from ..adapters.multifit import replay_walk
    rep = Report("C11", tier, seed, "model_checking")
    for pat in PATTERNS:
        ignore = ("AddSource",) if pat == "single" else ()
        if not cm.run_mc_stage(rep, "MultiFit", cm.mc_cfg(constants(pat, 5 if tier == "quick" else 6, faults=faults), INVARIANTS, PROPERTIES),
                               ACTIONS, label=pat, ignore=ignore):
            return rep
        cap = 500 if tier == "quick" else 8000
        cm.run_replay_stage(rep, "GenMultiFit", cm.gen_cfg(constants(pat, 3 if tier == "quick" else 4, off=("Read",), faults=faults)), replay_walk,
                            "%s: all histories of mutators (+ final probe of every observable)" % pat, max_histories=cap, seed=seed, chunk=10)
        cm.run_replay_stage(rep, "GenMultiFit", cm.gen_cfg(constants(pat, 9, faults=faults)), replay_walk, "%s: simulate" % pat,
                            simulate=(6 if tier == "quick" else 80, 9, seed + 1), max_histories=cap, seed=seed, chunk=10)
    rep.assumptions += ["members: three-point indexed fits with linear models (distinct basis vectors) and one histogram member with a Poisson likelihood; "
                        "pattern xyshared: two XY members with an x uncertainty shared by both (projected with the current slope): there the oracle is a new "
                        "multi-fit brought to the same configuration by the same mutators, the reads deleted; "
                        "sources are absolute, uncorrelated between points, with distinct variances so that every block of the joint covariance identifies its sources"]
    rep.coverage["trusted_base"] = ["TLC", "harness/adapters/multifit.py (joint -2 log L from the specification's block layout with numpy)"]
    return rep


def replay(path, tier, seed):
    from ..adapters.multifit import replay_walk
    return cm.replay_file(Report("C11", tier, seed, "model_checking"), path, replay_walk, "GenMultiFit")
