"""C01 -- the cost value is the documented -2 log L of exactly the declared inputs.

Spec: FitCache.tla supplies the histories (all orders of adding / disabling / enabling sources incl. a model-referenced source
first, constraints, parameter points, data replacement, fits) and the DECLARED configuration of every state (enabled sources,
constraints, whether the no-errors cost is in use: CostNodeSelection); harness/evaluator.py evaluates the documented formula.
"""
import itertools

from .. import fitgraph as fg
from .. import fitlib as fl
from ..core import Report
from ..replay import replay_parallel
from . import common as cm

INVARIANTS = ["ReadCorrect", "CostNodeSelection"]
COST_OFF = ("rejects", "Limit", "Unlimit", "Release", "Fix", "SetParam")


def _sweep_case(case):
    """One direct construction: (ftype, cost_id, ordered sources, disabled, constraints) at two parameter points."""
    import warnings
    from ..adapters import fiteval
    warnings.simplefilter("ignore")
    ftype, cost_id, srcs, disabled, cons = case["ftype"], case["cost"], case["srcs"], case["disabled"], case["cons"]
    fit = fl.make_fit(ftype, cost=cost_id)
    for s in srcs:
        fl.add_source(fit, ftype, s)
    for s in disabled:
        fit.disable_error(s)
    for c in cons:
        fl.add_constraint(fit, ftype, c)
    on = [s for s in srcs if s not in disabled]
    if on == ["ex2"]:
        return []          # a fully correlated source alone gives a singular covariance: outside the statement
    st = dict(on=on, cons=cons, data_set="d0", implicit=(cost_id == "chi2" and not srcs), own_src=False, fixed=[], posdef=True)
    issues = []
    for i in (0, 1):
        fit.set_all_parameter_values([fl.PVALS[ftype][p][i] for p in fl.PARAMS[ftype]])
        kf = "KF-C01-HIST-MODEL-REL" if ftype == "hist" and any(fl.SOURCES[s]["ref"] == "model" and fl.SOURCES[s]["rel"] for s in on) else None
        bad = fiteval.check_against_evaluator(fit, ftype, cost_id, st, ("cost", "total_cov"))
        if bad:
            issues.append(dict(kind="violation", step=0, kf=kf, signature="%s differs from the documented value [%s/%s] (direct construction)" % (bad[0], ftype, cost_id),
                               detail=dict(case=case, expected=bad[1], actual=bad[2])))
            break
    if not issues and not (ftype == "xy" and "ex2" in on):
        # after a fit the reported cost must still be the documented function of the declared inputs, at the reported parameters
        # (do_fit may switch to an optimised cost node: it has to be the same function)
        try:
            fit.do_fit()
        except Exception as exc:
            return [dict(kind="violation", step=0, kf=None, signature="do_fit raised %s [%s/%s] (direct construction)" % (type(exc).__name__, ftype, cost_id),
                         detail=dict(case=case, exc=str(exc)[:300]))]
        kf = "KF-C01-HIST-MODEL-REL" if ftype == "hist" and any(fl.SOURCES[s]["ref"] == "model" and fl.SOURCES[s]["rel"] for s in on) else None
        bad = fiteval.check_against_evaluator(fit, ftype, cost_id, st, ("cost", "total_cov"))
        if bad:
            issues.append(dict(kind="violation", step=0, kf=kf, signature="%s after do_fit differs from the documented value at the reported parameters [%s/%s]" % (bad[0], ftype, cost_id),
                               detail=dict(case=case, expected=bad[1], actual=bad[2], parameters=[float(v) for v in fit.parameter_values])))
    return issues


def sweep_cases(tier):
    from ..adapters.fiteval import tables
    from .. import evaluator as ev
    cases = []
    for ftype in ("xy", "indexed", "hist", "unbinned"):
        tab = tables()[ftype]
        srcs_all = fg.SRC_BY_TYPE[ftype]
        for cid in sorted(tab):
            ck = ev.canonical_cost(cid, tab)
            if ftype in ("xy", "indexed") and "poisson" in ck["kind"]:
                continue       # the catalogue data of these types is not integer-valued
            needs = ck["kind"] not in ("chi2_no_errors", "nll_poisson", "nllr_poisson", "unbinned_nll")
            mixes = [[], ["ey1"], ["em1"], ["ey1", "ey2"], ["em2", "ey1"], ["ey3", "em1"]] if srcs_all else [[]]
            if ftype == "xy":
                mixes += [["ex1", "ey1"], ["ey1", "ex2"], ["ex1"]]
            for mix in mixes:
                if needs and not mix:
                    continue
                if not needs and mix and ck["kind"] != "chi2_no_errors" and tier == "quick" and len(mix) > 1:
                    continue
                if ck["kind"] == "chi2_no_errors" and mix:
                    continue
                if ck["kind"] in ("chi2_pointwise", "gauss_pointwise", "nll_gaussian", "nllr_gaussian") and any(not _diag(s) for s in mix):
                    continue   # pointwise identifiers are documented for uncorrelated uncertainties only
                for cons in ([], ["c1"], ["c2", "c3"], ["c4"]):
                    cases.append(dict(ftype=ftype, cost=cid, srcs=mix, disabled=[], cons=cons, steps=[]))
                if len(mix) >= 2:
                    cases.append(dict(ftype=ftype, cost=cid, srcs=mix, disabled=[mix[0]], cons=["c1"], steps=[]))
    return cases


def _diag(s):
    return fl.SOURCES[s]["corr"] == 0.0 and fl.SOURCES[s]["kind"] == "simple"


def run(tier, seed, faults=()):
    from ..adapters.fiteval import replay_walk
    rep = Report("C01", tier, seed, "model_checking")
    # (a) every identifier of the three tables x source mixes x constraints, direct constructions
    cases = sweep_cases(tier)
    res = replay_parallel(cases, _sweep_case, chunk=20)
    cm.report_issues(rep, "FitCache(direct)", cases, res, "identifier sweep")
    rep.coverage["identifier_sweep_cases"] = len(cases)
    rep.sample(dict(kind="identifier sweep case", case=cases[len(cases) // 3]))
    # (b) histories from the specification, cost compared with the evaluator
    for ftype in ("xy", "indexed", "hist", "unbinned"):
        g = fg.export(ftype)
        mod = {"FCRun.tla": fg.tla_module(g), "GenFCRun.tla": fg.tla_module(g, base="GenFitCache", name="GenFCRun")}
        c = fg.cfg_constants(g, "nonlinear", 5 if ftype != "xy" else 4, faults=faults)
        mc = cm.tlc.run_mc("FCRun", cm.mc_cfg(c, INVARIANTS, []), workers=16, timeout=3000, coverage=False, extra_files=mod)
        rep.coverage["states"] = rep.coverage.get("states", 0) + mc["distinct"]
        rep.coverage["transitions"] = rep.coverage.get("transitions", 0) + mc["generated"]
        if mc["violated"]:
            rep.violation("TLC: %s violated in FitCache.tla on the exported %s graph" % (mc["violated"], ftype), "", dict(tlc_trace=mc.get("trace")))
            return rep
        depth, cap = (4, 2500) if tier == "quick" else (5, 40000)
        c = fg.cfg_constants(g, "nonlinear", depth, max_sources=3, off=COST_OFF, faults=faults, obs_filter=("cost",), cons=("c1", "c2", "c3", "c4"))
        cm.run_replay_stage(rep, "GenFCRun", cm.gen_cfg(c), replay_walk, "%s: %d steps (sources in every order, constraints, points, data, fit; cost reads)" % (ftype, depth),
                            extra_files=mod, max_histories=cap, seed=seed, chunk=50)
        c = fg.cfg_constants(g, "nonlinear", 10, max_sources=3, off=("rejects",), faults=faults, obs_filter=("cost", "total_cov", "gof"))
        cm.run_replay_stage(rep, "GenFCRun", cm.gen_cfg(c), replay_walk, "%s: simulate" % ftype, simulate=(10 if tier == "quick" else 150, 10, seed + 1),
                            extra_files=mod, max_histories=1200 if tier == "quick" else 30000, seed=seed, chunk=50)
    rep.coverage["traces_validated_against_impl"] += len(cases)
    rep.assumptions += ["evaluator tolerance 1e-6 relative (x uncertainties are projected by kafe2 with a numerical slope)",
                        "user-supplied cost callables are not 'built-in' and not covered",
                        "Poisson identifiers are exercised on histogram fits (integer data) only"]
    rep.coverage["trusted_base"] = ["TLC", "harness/evaluator.py (numpy/scipy: solve, slogdet, logpmf/logpdf, chi2.sf)", "harness/fitlib.py catalogue"]
    return rep


def replay(path, tier, seed):
    from ..adapters.fiteval import replay_walk
    return cm.replay_file(Report("C01", tier, seed, "model_checking"), path, replay_walk, "GenFCRun")
