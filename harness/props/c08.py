"""C08 -- inspecting results never moves the fit (spec/Minimizer.tla)."""
from ..core import Report
from . import common as cm

ACTIONS = ["DoFit", "SetPar", "FixPar", "ReleasePar", "LimitPar", "Query"]
INVARIANTS = ["CopiesAgree", "NoTemporaryFixLeft"]
PROPERTIES = ["QueryDoesNotMove", "FixedUntouched"]


def constants(backend, depth, off=(), faults=()):
    return dict(Pars=["a", "b", "c"], Backend='"%s"' % backend, MaxDepth=depth, Off=list(off), Faults=list(faults))


def run(tier, seed, faults=()):
    from ..adapters.minimizer import replay_walk
    rep = Report("C08", tier, seed, "model_checking")
    for backend in ("iminuit", "scipy"):
        if not cm.run_mc_stage(rep, "Minimizer", cm.mc_cfg(constants(backend, 7 if tier == "quick" else 9, faults=faults), INVARIANTS, PROPERTIES),
                               ACTIONS, label=backend):
            return rep
        caps = dict(iminuit=(2500, 20000), scipy=(160, 2000))[backend]
        cap = caps[0] if tier == "quick" else caps[1]
        cm.run_replay_stage(rep, "GenMinimizer", cm.gen_cfg(constants(backend, 4 if tier == "quick" else 5, off=("SetPar", "LimitPar"), faults=faults)),
                            replay_walk, "%s: all histories (fit / fix / release / queries)" % backend, max_histories=cap, seed=seed, chunk=4)
        cm.run_replay_stage(rep, "GenMinimizer", cm.gen_cfg(constants(backend, 8, faults=faults)), replay_walk, "%s: simulate" % backend,
                            simulate=(6 if tier == "quick" else 60, 8, seed + 1), max_histories=cap // 2, seed=seed, chunk=4)
    rep.assumptions += ["quadratic xy model with three parameters and one uncorrelated y source; thresholds: parameters 0.02 sigma, cost 1e-3, "
                        "symmetric uncertainties 5 %, repeated answers 3 %",
                        "plots are exercised under C18; ContoursProfiler uses the same fitter calls"]
    rep.coverage["trusted_base"] = ["TLC", "harness/adapters/minimizer.py", "harness/fitlib.py"]
    return rep


def replay(path, tier, seed):
    from ..adapters.minimizer import replay_walk
    return cm.replay_file(Report("C08", tier, seed, "model_checking"), path, replay_walk, "GenMinimizer")
