"""C06 -- the reported optimum is a true local minimum within bounds; fixed values untouched (spec/NlScenario.tla + Minimizer.tla)."""
from ..core import Report
from . import c08
from . import common as cm

FAMILIES = ["growth", "expoffset", "exponential", "powerlaw", "peak", "sinusoid", "logistic", "histpeak", "unbinned"]


def constants(depth, families=FAMILIES):
    return dict(Families=list(families), MaxDepth=depth, Off=[])


def run(tier, seed, faults=()):
    from ..adapters.nlscenario import replay_walk, replay_walk_scipy
    rep = Report("C06", tier, seed, "exploration")
    mc = cm.tlc.run_mc("NlScenario", cm.mc_cfg(constants(4), ["ProbesOnlyAfterFit", "NeverProbeFixed"]), workers=8, timeout=900, coverage=False)
    rep.coverage["tlc"] = dict(NlScenario=dict(states=mc["distinct"], configurations=mc["init"]))
    if mc["violated"]:
        rep.violation("TLC: %s violated in NlScenario.tla" % mc["violated"], "", dict(tlc_trace=mc.get("trace")))
        return rep
    # the bookkeeping protocol of the adapters (fixed parameters are never touched by any query or fit)
    for backend in ("iminuit", "scipy"):
        m2 = cm.tlc.run_mc("Minimizer", cm.mc_cfg(c08.constants(backend, 6, faults=faults), c08.INVARIANTS, c08.PROPERTIES), workers=16, timeout=900, coverage=False)
        rep.coverage["tlc"]["Minimizer/" + backend] = dict(states=m2["distinct"])
        if m2["violated"]:
            rep.violation("TLC: %s violated in Minimizer.tla (%s)" % (m2["violated"], backend), "", dict(tlc_trace=m2.get("trace")))
            return rep
    # histories: DoFit, probes of neighbours, CrossBackend, Refit -- simulated walks cover long probe sequences, exhaustive depth 3 the rest
    cap = 1600 if tier == "quick" else 12000
    raw = cm.run_replay_stage(rep, "GenNlScenario", cm.gen_cfg(constants(4)), replay_walk, "iminuit: fit, probes, cross-backend, refit",
                              simulate=(300 if tier == "quick" else 3000, 5, seed + 1), max_histories=cap, seed=seed, chunk=4)
    cm.run_replay_stage(rep, "GenNlScenario", cm.gen_cfg(constants(4)), replay_walk_scipy, "scipy: fit, probes, cross-backend, refit",
                        simulate=(70 if tier == "quick" else 800, 5, seed + 2), max_histories=cap // 4, seed=seed, chunk=2)
    # the iterative algorithm's promise (a fixed point) on every family that has x uncertainties: fit, fit again -- both backends
    from ..replay import replay_parallel
    sweep = []
    for fam in FAMILIES:
        if fam in ("histpeak", "unbinned"):
            continue
        for errs in ("xy", "xymodelrel"):
            for fixed in (0, 1):
                w = dict(first=dict(cfg=dict(family=fam, errors=errs, dea="iterative", fixed=fixed, limited=0, limit="inside")), init={},
                         steps=[dict(a=dict(name="DoFit"), o=dict(kind="none")), dict(a=dict(name="Refit"), o=dict(kind="none"))])
                sweep.append(w)
    for fn, label in ((replay_walk, "iminuit"), (replay_walk_scipy, "scipy")):
        res = replay_parallel(sweep, fn, chunk=2)
        cm.report_issues(rep, "GenNlScenario", sweep, res, "%s: fixed point of the iterative algorithm, every family" % label)
        rep.coverage["replayed"]["%s: fixed-point sweep" % label] = dict(histories=len(sweep))
        rep.coverage["traces_validated_against_impl"] = rep.coverage.get("traces_validated_against_impl", 0) + len(sweep)
    n = rep.coverage.get("traces_validated_against_impl", 0)
    cfgs = {str(sorted(w["first"]["cfg"].items())) for w in raw}
    rep.coverage.update(evaluations=n, distinct_nontrivial=len(cfgs),
                        rule="configurations (family x uncertainty mix x dynamic-error algorithm x fixed x limited x limit inside/active) enumerated by TLC from NlScenario.tla; "
                             "each history fits for real and executes the scheduled probes; distinct = distinct configurations replayed with iminuit")
    rep.assumptions += ["optimality is probed at +-0.5 sigma along each free parameter (clipped to the limits), on a separate fresh fit; nothing here proves convergence",
                        "thresholds: neighbour 1e-3 of the cost, refit 0.05 sigma, backends 0.1 sigma; fixed values bit-exact, limits closed",
                        "with the iterative algorithm only the fixed-point clause is checked (that is what the statement promises for it)"]
    rep.coverage["trusted_base"] = ["TLC", "harness/adapters/nlscenario.py (catalogue with fixed noise realisations)"]
    return rep


def replay(path, tier, seed):
    from ..adapters.nlscenario import replay_walk
    rep = cm.replay_file(Report("C06", tier, seed, "exploration"), path, replay_walk, "GenNlScenario")
    rep.coverage.update(evaluations=1, distinct_nontrivial=2, rule="replay of one saved history")
    return rep
