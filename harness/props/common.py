"""The standard flow of a model-based check:  TLC exhaustive (MC)  ->  path-tree / simulated histories  ->  replay."""
import json

from .. import tlc
from ..core import Report, coverage_check, save_replay
from ..replay import replay_parallel


def consts(d):
    """dict -> CONSTANTS lines; values: str (literal text), list/tuple/set (set of strings), int/bool, ('<-', name)."""
    out = ["CONSTANTS"]
    for k, v in d.items():
        if isinstance(v, tuple) and len(v) == 2 and v[0] == "<-":
            out.append("  %s <- %s" % (k, v[1]))
        elif isinstance(v, (list, set, frozenset, tuple)):
            out.append("  %s = {%s}" % (k, ",".join('"%s"' % x for x in sorted(v))))
        elif isinstance(v, bool):
            out.append("  %s = %s" % (k, "TRUE" if v else "FALSE"))
        else:
            out.append("  %s = %s" % (k, v))
    return out


def mc_cfg(constants, invariants, properties=(), spec="Spec"):
    return "\n".join(["SPECIFICATION " + spec] + consts(constants) + ["INVARIANT " + i for i in invariants] +
                     ["PROPERTY " + p for p in properties] + ["CHECK_DEADLOCK FALSE"]) + "\n"


def gen_cfg(constants, spec="GSpec"):
    return "\n".join(["SPECIFICATION " + spec] + consts(constants) +
                     ["ACTION_CONSTRAINT PathOut", "CONSTRAINT StateOut", "CHECK_DEADLOCK FALSE"]) + "\n"


def report_issues(rep, spec, walks, results, source, drift_prefix=None):
    for idx, issues in results:
        w = walks[idx]
        for iss in issues:
            k = iss.get("step", len(w["steps"]) - 1)
            robj = dict(spec=spec, source=source, walk=dict(first=w.get("first"), init=w.get("init"), steps=w["steps"][:k + 1]),
                        failing_step=k)
            if "first" not in w:
                robj["job"] = w          # scenario-style cases are self-contained job records
            if iss["kind"] == "violation":
                rep.violation(iss["signature"], iss.get("detail"), robj, kf=iss.get("kf"))
            elif iss["kind"] == "drift":
                path = save_replay(rep.prop + "-drift", iss["signature"], robj) if len(rep.drift) < 8 else "-"
                rep.add_drift("%s %s: %s [%s]" % (spec, source, iss["signature"], path))
            else:
                raise RuntimeError("replay machinery failure: %s\n%s" % (iss["signature"], iss.get("detail")))


def run_mc_stage(rep, spec, cfg_text, actions, label="mc", timeout=3000, ignore=(), extra_files=None):
    mc = tlc.run_mc(spec, cfg_text, workers=16, timeout=timeout, extra_files=extra_files)
    rep.coverage["states"] = rep.coverage.get("states", 0) + mc["distinct"]
    rep.coverage["transitions"] = rep.coverage.get("transitions", 0) + mc["generated"]
    rep.coverage.setdefault("mc", {})[label] = dict(spec=spec, distinct=mc["distinct"], generated=mc["generated"], depth=mc["depth"],
                                                    wall_s=round(mc["wall_s"], 1))
    if mc["violated"]:
        rep.violation("TLC: %s violated in %s.tla (the model of the mechanism breaks the property)" % (mc["violated"], spec),
                      "\n".join(mc.get("trace", [])[-3:])[:3000], dict(spec=spec, tlc_trace=mc.get("trace")))
        return False
    coverage_check(rep, mc, actions, ignore=ignore)
    return True


def run_replay_stage(rep, gen_spec, cfg_text, replay_fn, label, simulate=None, timeout=3000, sample_fn=None, procs=16, chunk=200,
                     extra_files=None, max_histories=None, seed=0):
    raw, gst = tlc.run_paths(gen_spec, cfg_text, simulate=simulate, timeout=timeout, extra_files=extra_files)
    if max_histories and len(raw) > max_histories:
        import random
        random.Random(seed).shuffle(raw)
        gst["sampled_from"] = len(raw)
        raw = raw[:max_histories]
    results = replay_parallel(raw, replay_fn, procs=procs, chunk=chunk)
    report_issues(rep, gen_spec, raw, results, label)
    rep.coverage.setdefault("replayed", {})[label] = dict(edges_in_model=gst["edges"], histories=len(raw), sampled_from=gst.get("sampled_from"),
                                                          steps=sum(len(w["steps"]) for w in raw), tlc_wall_s=round(gst["wall_s"], 1))
    rep.coverage["traces_validated_against_impl"] = rep.coverage.get("traces_validated_against_impl", 0) + len(raw)
    if raw:
        w = raw[len(raw) // 2]
        s = sample_fn(w) if sample_fn else dict(first=w["first"], actions=[s["a"] for s in w["steps"]], observed=[s.get("o") for s in w["steps"]])
        s["kind"] = label
        rep.sample(s)
    return raw


def replay_file(rep, path, replay_fn, spec):
    obj = json.load(open(path))
    walks = [obj["walk"]]
    results = replay_parallel(walks, replay_fn, procs=1)
    report_issues(rep, spec, walks, results, "replay")
    rep.coverage.update(states=1, transitions=len(obj["walk"]["steps"]), traces_validated_against_impl=1)
    rep.sample(dict(kind="replayed file", path=path, actions=[s["a"] for s in obj["walk"]["steps"]]))
    return rep
