"""C13 -- histogram model bin contents equal the integral of the density over each bin (spec/HistModel.tla)."""
from ..core import Report
from . import common as cm

ACTIONS = ["SetParams", "ReadModel", "SetData", "Rebin"]
INVARIANTS = ["ModelFollowsParams", "DensityScaling", "ExactnessClasses", "ConvergenceOrders"]


def constants(depth, off=(), faults=()):
    return dict(MaxDepth=depth, Off=list(off), Faults=list(faults))


def run(tier, seed, faults=()):
    from ..adapters.histmodel import replay_walk
    rep = Report("C13", tier, seed, "model_checking")
    d = 4 if tier == "quick" else 5
    if not cm.run_mc_stage(rep, "HistModel", cm.mc_cfg(constants(d, faults=faults), INVARIANTS), ACTIONS):
        return rep
    n = 2 if tier == "quick" else 3
    cm.run_replay_stage(rep, "GenHistModel", cm.gen_cfg(constants(n, faults=faults)), replay_walk, "all histories, %d steps" % n,
                        max_histories=60000 if tier == "thorough" else 6000, seed=seed)
    cm.run_replay_stage(rep, "GenHistModel", cm.gen_cfg(constants(10, faults=faults)), replay_walk, "simulate",
                        simulate=(60 if tier == "quick" else 600, 10, seed + 1))
    rep.assumptions += ["densities of the model-checked part are polynomials of degree <= 4 with integer coefficients on integer bin edges "
                        "(exact integer arithmetic x 960); every state is also replayed on a normal + exponential mixture, checked "
                        "against the antiderivative within the rules' textbook error bounds",
                        "convergence orders are checked as exact identities for monomials in the spec (TLC), not measured on the code"]
    rep.coverage["trusted_base"] = ["TLC", "harness/adapters/histmodel.py"]
    return rep


def replay(path, tier, seed):
    from ..adapters.histmodel import replay_walk
    return cm.replay_file(Report("C13", tier, seed, "model_checking"), path, replay_walk, "GenHistModel")
