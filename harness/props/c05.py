"""C05 -- for models linear in the parameters the fit returns the GLS solution (spec/Scenario.tla: exact rational reference on a grid)."""
import random

import numpy as np

from .. import tlc
from ..core import Report
from ..replay import replay_parallel
from . import common as cm

INVARIANTS = ["PermutationInvariant", "ParameterOrderEquivariant", "UnitEquivariant", "FixedIsDeletedColumn", "Stationary", "CovPositive"]


def constants(grid, depth=1):
    return dict(MaxDepth=depth, Off=[], Bases=("<-", "BasesAll"), Grid='"%s"' % grid)


def scenarios(grid, depth=1):
    raw, st = tlc.run_paths("GenScenario", cm.gen_cfg(constants(grid, depth)), timeout=3000)
    seen, out = set(), []
    for w in raw:
        for rec in [w["init"]] + w["steps"]:
            key = str(sorted(rec["sc"].items()))
            if key not in seen:
                seen.add(key)
                out.append({k: rec[k] for k in ("sc", "sol", "cov", "chi2x16", "ndf")})
    return out, st


def _float_problem(job):
    """Outside the exact grid: random well-conditioned linear problems with correlated covariance, evaluated in floating point."""
    import warnings
    from kafe2 import XYFit
    warnings.simplefilter("ignore")
    rng = np.random.RandomState(job["seed"])
    n = rng.randint(4, 9)
    x = np.sort(rng.uniform(-3, 3, n))        # centred abscissae: well-conditioned polynomial bases
    deg = job["deg"]
    W = np.vander(x, deg + 1, increasing=True)
    p_true = rng.uniform(-1, 1, deg + 1)
    unit = 10.0 ** job.get("unit_exp", 0)     # the same problem with y expressed in another unit (small absolute covariances)
    p_true = p_true * unit
    sig = rng.uniform(0.2, 0.6, n) * unit
    rho = rng.uniform(0.0, 0.6)
    s_sh = rng.uniform(0.1, 0.4) * unit
    V = np.diag(sig ** 2) + s_sh ** 2 * (np.full((n, n), rho) + np.eye(n) * (1 - rho))
    d = W @ p_true + np.linalg.cholesky(V) @ rng.normal(size=n)
    names = ["c%d" % k for k in range(deg + 1)]
    ns = {"np": np}
    exec("def poly(x, %s):\n    return %s\n" % (", ".join("%s=1.0" % nm for nm in names), " + ".join("%s * x**%d" % (nm, k) for k, nm in enumerate(names))), ns)
    fit = XYFit([x, d], ns["poly"], minimizer=job["backend"])
    fit.add_error("y", sig)
    if job.get("matrix"):      # the same correlated source given as an explicit covariance matrix
        fit.add_matrix_error("y", s_sh ** 2 * (np.full((n, n), rho) + np.eye(n) * (1 - rho)), "cov")
    else:
        fit.add_error("y", s_sh, correlation=rho)
    fixed = []
    if job["fix"]:
        fixed = [deg if job.get("fix_last") else int(rng.randint(0, deg + 1))]
        fit.fix_parameter(names[fixed[0]], float(p_true[fixed[0]]))
    rows, rvals, rcov = [], [], []
    if job["con"]:
        j = int(rng.choice([k for k in range(deg + 1) if k not in fixed]))
        unc = float(rng.uniform(0.2, 0.5)) * unit
        val = float(p_true[j] + 0.3 * unc)
        fit.add_parameter_constraint(names[j], val, unc)
        rows, rvals, rcov = [j], [val], [unc ** 2]
    fit.set_all_parameter_values([float(v) for v in (p_true + unit * rng.uniform(-0.5, 0.5, deg + 1)) if True] if not fixed else
                                 [float(p_true[k]) if k in fixed else float(p_true[k] + unit * rng.uniform(-0.5, 0.5)) for k in range(deg + 1)])
    fit.do_fit()
    free = [k for k in range(deg + 1) if k not in fixed]
    Vi = np.linalg.inv(V)
    A = W[:, free]
    off = d - W[:, fixed] @ p_true[fixed] if fixed else d
    H = A.T @ Vi @ A
    g = A.T @ Vi @ off
    for j, v, c in zip(rows, rvals, rcov):
        e = np.zeros(len(free))
        e[free.index(j)] = 1.0
        H += np.outer(e, e) / c
        g += e * v / c
    sol = np.linalg.solve(H, g)
    cov = np.linalg.inv(H)
    pv = np.asarray(fit.parameter_values)[free]
    sd = np.sqrt(np.diag(cov))
    issues = []
    if np.any(np.abs(pv - sol) > 0.02 * sd + 1e-7 * unit):
        issues.append(dict(kind="violation", step=0, kf=None, signature="GLS (float problems): optimum differs from the closed form [%s]" % job["backend"],
                           detail=dict(job=job, expected=sol.tolist(), actual=pv.tolist(), sigma=sd.tolist())))
    else:
        pc = np.asarray(fit.parameter_cov_mat)[np.ix_(free, free)]
        if not np.allclose(pc, cov, rtol=0.03, atol=3e-3 * float(np.max(np.abs(cov)))):
            issues.append(dict(kind="violation", step=0, kf=None, signature="GLS (float problems): covariance differs from (W^T V^-1 W)^-1 [%s]" % job["backend"],
                               detail=dict(job=job, expected=cov.tolist(), actual=pc.tolist())))
        elif job.get("asym"):
            # a quadratic cost: the asymmetric uncertainties are +- the symmetric ones
            asym = fit.asymmetric_parameter_errors
            if asym is not None:
                got = np.asarray(asym, dtype=float)[free]
                if not np.allclose(-got[:, 0], sd, rtol=0.04, atol=1e-9 * unit) or not np.allclose(got[:, 1], sd, rtol=0.04, atol=1e-9 * unit):
                    issues.append(dict(kind="violation", step=0, kf=None, signature="GLS (float problems): asymmetric uncertainties differ from +- sqrt(diag((W^T V^-1 W)^-1)) [%s]" % job["backend"],
                                       detail=dict(job=job, expected=sd.tolist(), actual=got.tolist())))
    return issues


def run(tier, seed, faults=(), prop="C05", what=("gls",)):
    from ..adapters.scenario import replay_scenario
    rep = Report(prop, tier, seed, "exploration" if prop != "C15" else "exploration")
    grid = "small" if tier == "quick" else "full"
    mc = tlc.run_mc("Scenario", cm.mc_cfg(constants(grid, 2), INVARIANTS), workers=16, timeout=3000, coverage=False)
    rep.coverage["tlc"] = dict(spec="Scenario", distinct_states=mc["distinct"], generated=mc["generated"], invariants=INVARIANTS, grid=grid)
    if mc["violated"]:
        rep.violation("TLC: %s violated in Scenario.tla (an identity of the exact reference fails on the grid)" % mc["violated"], "", dict(tlc_trace=mc.get("trace")))
        return rep
    scs, st = scenarios(grid, 1 if tier == "quick" else 2)
    rng = random.Random(seed)
    rng.shuffle(scs)
    n_im, n_sc = (900, 150) if tier == "quick" else (len(scs), 900)
    jobs = []
    for i, s in enumerate(scs[:n_im]):
        jobs.append(dict(st=s, backend="iminuit", kind="xy" if i % 3 else "indexed", start=None if i % 2 else (-2.0, 3.0), what=list(what), steps=[]))
    for i, s in enumerate(scs[:n_sc]):
        jobs.append(dict(st=s, backend="scipy", kind="xy", start=None if i % 2 else (-2.0, 3.0), what=[w for w in what if w == "gls"] or list(what), steps=[]))
    res = replay_parallel(jobs, replay_scenario, chunk=10)
    cm.report_issues(rep, "GenScenario", jobs, res, "grid scenarios")
    evals = len(jobs)
    if prop == "C05":
        fj = [dict(seed=seed * 1000 + k, deg=(2 if k % 6 == 0 else 1 + k % 2), backend="iminuit" if k % 4 else "scipy", fix=(k % 3 == 0), con=(k % 5 == 0),
                   unit_exp=(-5 if (k % 4 and k % 7 == 1) else 0), matrix=(k % 2 == 1), asym=(k % 3 != 1), fix_last=(k % 6 == 0), steps=[])
              for k in range(160 if tier == "quick" else 1500)]
        res = replay_parallel(fj, _float_problem, chunk=5)
        cm.report_issues(rep, "float", fj, res, "random correlated problems (float reference)")
        evals += len(fj)
    nontrivial = len({str(sorted(j["st"]["sc"].items())) + j["backend"] + j["kind"] for j in jobs})
    rep.coverage.update(evaluations=evals, distinct_nontrivial=nontrivial,
                        rule="scenarios enumerated by TLC from Scenario.tla (all combinations of abscissae, data, weights, basis pair, fixed parameter, constraint that are well posed); "
                             "distinct = different (scenario, backend, fit type); each is non-trivial: a real minimisation compared with exact rationals",
                        scenarios_in_grid=len(scs))
    rep.sample(dict(kind="grid scenario with exact expectations", **jobs[0]["st"]))
    rep.assumptions += ["thresholds: values 0.02 sigma, covariance 2 %, chi2 1e-3, asymmetric = +- symmetric within 3 %",
                        "the exact grid has uncorrelated uncertainties; correlated covariances are covered by the float-evaluated random problems"]
    rep.coverage["trusted_base"] = ["TLC (exact rational arithmetic of Scenario.tla)", "harness/adapters/scenario.py", "numpy for the float extension"]
    return rep


def replay(path, tier, seed):
    import json
    from ..adapters.scenario import replay_scenario
    obj = json.load(open(path))
    rep = Report("C05", tier, seed, "exploration")
    w = obj["walk"]
    job = w.get("first") or w
    res = replay_parallel([obj.get("job", w)], replay_scenario if "st" in obj.get("job", w) else _float_problem, procs=1)
    cm.report_issues(rep, "GenScenario", [obj.get("job", w)], res, "replay")
    rep.coverage.update(evaluations=1, distinct_nontrivial=2, rule="replay of one saved scenario")
    rep.sample(dict(kind="replayed", path=path))
    return rep
