"""C12 -- histogram filling counts every entry exactly once in half-open bins (spec/HistFill.tla)."""
from ..core import Report
from . import common as cm

ACTIONS = ["Fill", "FillScalar", "ReadProcessing", "ReadPlain", "Rebin", "RebinRejected", "SetBins", "SetDataRejected"]
INVARIANTS = ["CountsOnce", "Conservation", "EntriesKept", "ProcessedMatchesData", "SortedCorrectly", "LoopTerminatesInBound"]
PROPERTIES = ["RejectLeavesUnchanged"]


def constants(depth, max_entries, max_batch=2, off=(), faults=(), vals="EntryValsAll"):
    return dict(EntryVals=("<-", vals), EdgeSeqs=("<-", "EdgeSeqsAll"),
                BadEdgeSeqs=("<-", "BadEdgeSeqsAll"), Ctors=("<-", "CtorsAll"), MaxEntries=max_entries, MaxBatch=max_batch,
                MaxDepth=depth, Off=list(off), Faults=list(faults))


def run(tier, seed, faults=()):
    from ..adapters.histfill import replay_walk
    rep = Report("C12", tier, seed, "model_checking")
    d, me = (5, 4) if tier == "quick" else (6, 5)
    if not cm.run_mc_stage(rep, "HistFill", cm.mc_cfg(constants(d, me, faults=faults), INVARIANTS, PROPERTIES), ACTIONS):
        return rep
    lean = ("rejects", "ReadPlain", "FillScalar")
    plans = [("all histories, 2 steps, all actions", constants(2, 4, faults=faults), None),
             ("all histories, 3 steps, single-entry fills", constants(3, 3, 1, off=lean, faults=faults, vals="EntryValsSmall"), None),
             ("simulate", constants(12, 6, faults=faults, vals="EntryValsWide"), (40 if tier == "quick" else 500, 12, seed + 1))]
    if tier == "thorough":
        plans[1] = ("all histories, 3 steps, all actions", constants(3, 4, faults=faults), None)
        plans.insert(2, ("all histories, 4 steps, batched fills", constants(4, 4, 2, off=lean, faults=faults, vals="EntryValsSmall"), None))
    for label, c, sim in plans:
        cm.run_replay_stage(rep, "GenHistFill", cm.gen_cfg(c), replay_walk, label, simulate=sim)
    rep.assumptions += ["entries and edges are small integers (on, between and outside the edges); non-integer edges only through n_bins/bin_range",
                        "NaN / infinite entries are outside the statement (finite entries)"]
    rep.coverage["trusted_base"] = ["TLC", "harness/adapters/histfill.py"]
    return rep


def replay(path, tier, seed):
    from ..adapters.histfill import replay_walk
    return cm.replay_file(Report("C12", tier, seed, "model_checking"), path, replay_walk, "GenHistFill")
