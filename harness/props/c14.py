"""C14 -- equivalent specifications of the same problem give identical results (spec/Forms.tla)."""
from ..core import Report
from . import common as cm

ACTIONS = ["Declare", "Constrain", "SetUp", "Compare"]
INVARIANTS = ["SidesDenoteTheSameProblem", "Symmetric"]
DATA = ["pos", "mixed", "neg"]


def constants(data, depth, off=(), faults=()):
    return dict(Data='"%s"' % data, MaxDepth=depth, Off=list(off), Faults=list(faults))


def run(tier, seed, faults=()):
    from ..adapters.forms import replay_hist, replay_indexed, replay_unbinned, replay_xy
    rep = Report("C14", tier, seed, "model_checking")
    for data in DATA:
        if not cm.run_mc_stage(rep, "Forms", cm.mc_cfg(constants(data, (3 if data == "mixed" else 2) if tier == "quick" else 3, faults=faults), INVARIANTS), ACTIONS, label="forms, %s data" % data):
            return rep
    for data in DATA:
        cm.run_replay_stage(rep, "GenForms", cm.gen_cfg(constants(data, 2, faults=faults)), replay_xy, "xy, %s data: all histories, 2 steps" % data,
                            max_histories=1500 if tier == "quick" else None, seed=seed, chunk=20)
        cm.run_replay_stage(rep, "GenForms", cm.gen_cfg(constants(data, 2, faults=faults)), replay_indexed, "indexed, %s data: all histories, 2 steps" % data,
                            max_histories=800 if tier == "quick" else None, seed=seed + 1, chunk=20)
        cm.run_replay_stage(rep, "GenForms", cm.gen_cfg(constants(data, 5, faults=faults)), replay_xy, "xy, %s data: simulate" % data,
                            simulate=(60 if tier == "quick" else 800, 5, seed + 2), max_histories=400 if tier == "quick" else 6000, seed=seed, chunk=10)
    # histogram and unbinned fits: constraints and the set-up of the parameters through class / wrapper / YAML (no uncertainty sources)
    for fn, label in ((replay_hist, "hist"), (replay_unbinned, "unbinned")):
        cm.run_replay_stage(rep, "GenForms", cm.gen_cfg(constants("pos", 3, off=["Declare"], faults=faults)), fn, "%s: constraints and set-up, all histories, 3 steps" % label,
                            max_histories=500 if tier == "quick" else None, seed=seed + 3, chunk=10)
    rep.assumptions += ["three data points (all positive / mixed signs / all negative), sources of size 0.2, 0.5 and 10 %, 20 % with correlation 0, 1/2, 1; "
                        "every form is compared with the explicit absolute covariance matrix (canonical form) and with the spec's integer normal form",
                        "wrapper / YAML / model-string families: equivalence is established by building two real fits (exploration level); "
                        "relative sources refer to the data (errors_rel_to_model=False in the wrappers)"]
    rep.coverage["trusted_base"] = ["TLC", "harness/adapters/forms.py"]
    return rep


def replay(path, tier, seed):
    import json
    from ..adapters import forms
    src = json.load(open(path)).get("source", "xy")
    kind = next((k for k in ("indexed", "hist", "unbinned") if src.startswith(k)), "xy")
    return cm.replay_file(Report("C14", tier, seed, "model_checking"), path, getattr(forms, "replay_" + kind), "GenForms")
