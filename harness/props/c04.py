"""C04 -- graph reads equal a from-scratch evaluation; unchanged inputs are not recomputed.

Spec: spec/Nexus.tla.  TLC: ReadCorrect, AtMostOncePerRead, NoSpuriousRecompute, FreshIsIdeal, StaleUpwardClosed,
Acyclic, RejectLeavesUnchanged.  Binding: every edge of the bounded graph replayed on real nodes (direction A),
simulated deeper walks, and trace validation of the Nexus operations of real fits (direction B, nexus_trace).
"""
import os

from .. import tlc
from ..core import Report, cfg_set, coverage_check
from ..replay import replay_parallel

STEP_KEYS = ("a", "o", "ideal", "kf", "tb", "stale", "frozen", "idealAll", "kfAll")
SHAPES = ["chain", "diamond", "deponly", "aliases", "tuple", "fallback", "fallback2", "ops", "shared"]
ACTIONS = ["SetValue", "SetValueRejected", "Read", "MarkForUpdate", "Freeze", "Unfreeze", "SetFunc", "AddDependency", "AddDependencyPair",
           "AddDependencyUnknown", "ReplaceChild", "RemoveDependency", "TupleSetItem", "Replace"]
INVARIANTS = ["ReadCorrect", "AtMostOncePerRead", "FrozenKeepsSnap", "FreshIsIdeal", "StaleUpwardClosed",
              "ParentsCoverChildren", "Acyclic"]
PROPERTIES = ["NoSpuriousRecompute", "RejectLeavesUnchanged"]


CORE_OFF = ["rejects", "AddDependency", "AddDependencyPair", "ReplaceChild", "RemoveDependency", "TupleSetItem", "Replace"]


def cfg(depth, faults=(), mode="mc", shapes=SHAPES, off=()):
    lines = ["SPECIFICATION " + ("Spec" if mode == "mc" else "GSpec"), "CONSTANTS",
             '  Nodes = {"n1","n2","n3","n4","n5"}', '  Vals = {"0","1"}', '  FSyms = {"F","P"}',
             "  ShapeIds = " + cfg_set(shapes), "  MaxDepth = %d" % depth, "  Off = " + cfg_set(off),
             "  Faults = " + cfg_set(faults), "CHECK_DEADLOCK FALSE"]
    if mode == "mc":
        lines += ["INVARIANT " + i for i in INVARIANTS] + ["PROPERTY " + p for p in PROPERTIES]
    else:
        lines += ["ACTION_CONSTRAINT PathOut", "CONSTRAINT StateOut"]
    return "\n".join(lines) + "\n"


def to_walks(raw):
    return [dict(shape=w["first"]["shape"], init=w["init"]["init"], steps=w["steps"]) for w in raw]


def report_issues(rep, walks, results, source):
    from ..adapters.nexus import replay_walk  # noqa
    for idx, issues in results:
        w = walks[idx]
        for iss in issues:
            if iss["kind"] == "violation":
                rep.violation(iss["signature"], iss.get("detail"),
                              dict(spec="Nexus", source=source, walk=dict(shape=w["shape"], init=w["init"],
                                                                          steps=w["steps"][:iss["step"] + 1]),
                                   failing_step=iss["step"]), kf=iss.get("kf"))
            elif iss["kind"] == "drift":
                from ..core import save_replay
                path = save_replay("C04-drift", iss["signature"], dict(spec="Nexus", source=source, walk=dict(
                    shape=w["shape"], init=w["init"], steps=w["steps"][:iss["step"] + 1]), failing_step=iss["step"])) \
                    if len(rep.drift) < 8 else "-"
                rep.add_drift("Nexus %s: %s [%s]" % (source, iss["signature"], path))
            else:
                raise RuntimeError("replay machinery failure: %s\n%s" % (iss["signature"], iss.get("detail")))


def run(tier, seed, rep=None, faults=()):
    from ..adapters.nexus import replay_walk
    rep = rep or Report("C04", tier, seed, "model_checking")
    depth_mc = 3 if tier == "quick" else 4
    mc = tlc.run_mc("Nexus", cfg(depth_mc, faults), workers=16, timeout=3000)
    rep.coverage["states"] = mc["distinct"]
    rep.coverage["transitions"] = mc["generated"]
    rep.coverage["mc"] = dict(depth=depth_mc, invariants=INVARIANTS, properties=PROPERTIES, shapes=SHAPES,
                              wall_s=round(mc["wall_s"], 1))
    if mc["violated"]:
        rep.violation("TLC: %s violated in Nexus.tla (the model of the mechanism breaks the property)" % mc["violated"],
                      "\n".join(mc.get("trace", [])[-3:])[:3000], dict(spec="Nexus", tlc_trace=mc.get("trace")))
        return rep
    coverage_check(rep, mc, ACTIONS)

    # direction A: every history of the bounded model on the real objects
    #  (a) all actions, 2 steps; (b) the value / staleness / freeze actions, 3 steps  (+ a final read of every node)
    total = 0
    plans = [("all-actions", 2, ()), ("core-actions", 3, CORE_OFF)]
    if tier == "thorough":
        # (all actions to depth 3 are several million histories per graph shape: they did not fit into memory on this machine)
        plans = [("all-actions", 2, ()), ("core-actions", 4, CORE_OFF)]
    for label, depth, off in plans:
        # thorough: one graph shape at a time (millions of histories: all of them at once do not fit into memory)
        groups = [[sh] for sh in SHAPES] if tier == "thorough" else [SHAPES]
        n_hist, n_edges, wall = 0, 0, 0.0
        for shapes in groups:
            raw, gst = tlc.run_paths("GenNexus", cfg(depth, faults, "gen", shapes=shapes, off=off), timeout=3000)
            walks = to_walks(raw)
            del raw
            results = replay_parallel(walks, replay_walk)
            report_issues(rep, walks, results, label)
            n_hist += len(walks)
            n_edges += gst["edges"]
            wall += gst["wall_s"]
            if walks and shapes[0] == groups[0][0]:
                w = walks[len(walks) // 2]
                rep.sample(dict(kind=label + " history", shape=w["shape"], actions=[s["a"] for s in w["steps"]],
                                observed=[s["o"] for s in w["steps"]], ideal_at_end=w["steps"][-1]["idealAll"]))
            del walks, results
        rep.coverage.setdefault("replayed", {})[label] = dict(depth=depth, edges_in_model=n_edges, histories=n_hist, tlc_wall_s=round(wall, 1))
        total += n_hist

    # deeper random walks of the same spec
    num, depth = (150, 10) if tier == "quick" else (2500, 14)
    raw, gst = tlc.run_paths("GenNexus", cfg(depth, faults, "gen", off=("rejects",)), simulate=(num, depth, seed + 1), timeout=3000)
    swalks = to_walks(raw)
    results = replay_parallel(swalks, replay_walk)
    report_issues(rep, swalks, results, "simulate")
    rep.coverage["replayed"]["simulate"] = dict(depth=depth, histories=len(swalks), steps=sum(len(w["steps"]) for w in swalks))
    total += len(swalks)
    rep.coverage["traces_validated_against_impl"] = total
    if swalks:
        w = max(swalks, key=lambda w: len(w["steps"]))
        rep.sample(dict(kind="simulated walk", shape=w["shape"], actions=[s["a"] for s in w["steps"]]))

    # direction B: executions of the real code (scripted sessions on every fit type and the repository's own fit tests), recorded at run
    # time, validated against the property monitor spec/TraceNexus.tla
    if not faults:
        trace_stage(rep, tier)
    return rep


def trace_stage(rep, tier):
    import shutil
    from ..core import ROOT
    from ..trace import check as tc
    out = os.path.join(ROOT, "build", "traces-%d" % os.getpid())
    try:
        results, summary = tc.run(tier, out, os.path.join(ROOT, "build"))
        bad = [r for r in results if r["verdict"] == "machinery"]
        if bad:
            raise RuntimeError("trace validation could not be decided for %s:\n%s" % (bad[0]["name"], bad[0].get("detail")))
        for r in results:
            if r["verdict"] != "ok":
                keep = os.path.join(ROOT, "replays", "C04-trace-" + os.path.basename(r["path"]))
                os.makedirs(os.path.dirname(keep), exist_ok=True)
                shutil.copy(r["path"], keep)
                rep.violation("trace: %s fails in a recorded execution (spec/TraceNexus.tla)" % r["verdict"],
                              dict(execution=r["name"], line=r["line"], node=r["node"], trace=keep,
                                   how_to_read="line = first event at which the clause fails; last line of the trace file maps node ids to names"),
                              dict(spec="TraceNexus", trace_file=keep, line=r["line"], node=r["node"], execution=r["name"]))
        rep.coverage["trace_validation"] = dict(summary, traces=len(results), accepted=sum(1 for r in results if r["verdict"] == "ok"),
                                                clauses=["ReadCorrect", "AtMostOnce", "NoSpurious"])
        rep.coverage["traces_validated_against_impl"] = rep.coverage.get("traces_validated_against_impl", 0) + len(results)
        longest = max(results, key=lambda r: r["events"])
        rep.sample(dict(kind="recorded execution validated against TraceNexus.tla", execution=longest["name"], events=longest["events"], verdict=longest["verdict"]))
    finally:
        shutil.rmtree(out, ignore_errors=True)


def replay(path, tier, seed):
    """Re-execute one saved behaviour on the current tree."""
    import json
    from ..adapters.nexus import replay_walk
    rep = Report("C04", tier, seed, "model_checking")
    obj = json.load(open(path))
    walks = [obj["walk"]]
    results = replay_parallel(walks, replay_walk, procs=1)
    report_issues(rep, walks, results, "replay")
    rep.coverage.update(states=1, transitions=len(obj["walk"]["steps"]), traces_validated_against_impl=1)
    rep.sample(dict(kind="replayed file", path=path, actions=[s["a"] for s in obj["walk"]["steps"]]))
    return rep
