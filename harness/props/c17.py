"""C17 -- every number shown to the user is a faithful rounding of the fit state (spec/Format.tla, spec/ReportView.tla)."""
from ..core import Report
from . import common as cm

INVARIANTS = ["Faithful", "CarryCovered"]


def constants(sig, val, exps="ExpsAll", digs="DigsAll", faults=()):
    return dict(Sigmas=("<-", sig), Values=("<-", val), Digs=("<-", digs), Exps=("<-", exps), Faults=list(faults), MaxDepth=3, Off=[])


def run(tier, seed, faults=()):
    from ..adapters.format import replay_walk
    rep = Report("C17", tier, seed, "model_checking")
    grid = ("SigmasQuick", "ValuesQuick") if tier == "quick" else ("SigmasAll", "ValuesAll")
    if not cm.run_mc_stage(rep, "Format", cm.mc_cfg(constants(*grid, faults=faults), INVARIANTS), ["Format"], label="format"):
        return rep
    cm.run_replay_stage(rep, "GenFormat", cm.gen_cfg(constants("SigmasGen", "ValuesGen", exps="ExpsAll" if tier == "quick" else "ExpsWide", faults=faults)),
                        replay_walk, "format jobs", chunk=2000)
    rep.assumptions += ["value +/- uncertainty strings: mantissas of the catalogue (all of 1..130 / 1..1200, the neighbourhoods of 950, 995, 9995, 99995 ...) x "
                        "decimal exponents x 1..4 significant digits; a decimal tie is replayed with the bias of the actual binary float"]
    rep.coverage["trusted_base"] = ["TLC", "harness/adapters/format.py"]
    return rep


def replay(path, tier, seed):
    from ..adapters.format import replay_walk
    return cm.replay_file(Report("C17", tier, seed, "model_checking"), path, replay_walk, "GenFormat")
