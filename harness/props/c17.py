"""C17 -- every number shown to the user is a faithful rounding of the fit state (spec/Format.tla, spec/ReportView.tla)."""
from ..core import Report
from . import common as cm

INVARIANTS = ["Faithful", "CarryCovered"]


def constants(sig, val, exps="ExpsAll", digs="DigsAll", faults=()):
    return dict(Sigmas=("<-", sig), Values=("<-", val), Digs=("<-", digs), Exps=("<-", exps), Faults=list(faults), MaxDepth=3, Off=[])


def run(tier, seed, faults=()):
    from ..adapters.format import replay_walk
    rep = Report("C17", tier, seed, "model_checking")
    grid = ("SigmasQuick", "ValuesQuick") if tier == "quick" else ("SigmasAll", "ValuesAll")
    if not cm.run_mc_stage(rep, "Format", cm.mc_cfg(constants(*grid, faults=faults), INVARIANTS), ["Format"], label="format"):
        return rep
    cm.run_replay_stage(rep, "GenFormat", cm.gen_cfg(constants("SigmasGen", "ValuesGen", exps="ExpsAll" if tier == "quick" else "ExpsWide", faults=faults)),
                        replay_walk, "format jobs", chunk=2000)
    # second sentence: report / result dictionary / saved-file preface show what the fit holds (ReportView.tla)
    from ..adapters.reportview import make_replay
    RV_ACTIONS = ["SetPar", "Fix", "Release", "AddError", "DoFit", "Show"]
    RV_INV = ["ShownIsCurrent", "FixedMarked", "FormatterFixedFlagEager"]
    for npars in (2, 3):
        c = dict(NPars=npars, MaxDepth=6 if tier == "quick" else 8, Off=[], Faults=list(faults))
        if not cm.run_mc_stage(rep, "ReportView", cm.mc_cfg(c, RV_INV), RV_ACTIONS, label="report view, %d parameters" % npars):
            return rep
    depth = 3 if tier == "quick" else 4
    for ftype in ("xy", "xyq", "hist", "indexed", "unbinned", "custom"):
        npars = 3 if ftype in ("xyq", "custom") else 2
        off = ["AddError"] if ftype in ("unbinned", "custom") else []        # an unbinned fit has no uncertainty sources to add
        c = dict(NPars=npars, MaxDepth=depth, Off=off, Faults=list(faults))
        cm.run_replay_stage(rep, "GenReportView", cm.gen_cfg(c), make_replay(ftype), "%s: all histories, %d steps" % (ftype, depth),
                            max_histories=(900 if ftype in ("xy", "hist") else 300) if tier == "quick" else None, seed=seed, chunk=20)
        c = dict(NPars=npars, MaxDepth=9, Off=off, Faults=list(faults))
        cm.run_replay_stage(rep, "GenReportView", cm.gen_cfg(c), make_replay(ftype), "%s: simulate" % ftype,
                            simulate=(12 if tier == "quick" else 150, 9, seed + 3), max_histories=250 if tier == "quick" else 4000, seed=seed, chunk=10)
    rep.assumptions += ["report / get_result_dict / to_file preface are parsed back after every Show of the ReportView histories on XYFit (line, quadratic), "
                        "IndexedFit, HistFit, UnbinnedFit, CustomFit; oracle = the numbers held by the same fit object right after the output",
                        "value +/- uncertainty strings: mantissas of the catalogue (all of 1..130 / 1..1200, the neighbourhoods of 950, 995, 9995, 99995 ...) x "
                        "decimal exponents x 1..4 significant digits; a decimal tie is replayed with the bias of the actual binary float"]
    rep.coverage["trusted_base"] = ["TLC", "harness/adapters/format.py", "harness/adapters/reportview.py"]
    return rep


def replay(path, tier, seed):
    import json
    obj = json.load(open(path))
    if obj.get("spec") == "GenReportView":
        from ..adapters.reportview import make_replay
        return cm.replay_file(Report("C17", tier, seed, "model_checking"), path, make_replay(obj.get("source", "xy").split(":")[0]), "GenReportView")
    from ..adapters.format import replay_walk
    return cm.replay_file(Report("C17", tier, seed, "model_checking"), path, replay_walk, "GenFormat")
