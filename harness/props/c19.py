"""C19 -- invalid specifications are rejected loudly and leave the object unchanged.

Specs: the rejecting actions of Nexus.tla, HistFill.tla, ErrorModel.tla and FitCache.tla, each with the action property
RejectLeavesUnchanged ([][obs'.kind = "reject" => UNCHANGED <definition and mechanism>]_vars) checked by TLC; every history in which a
malformed call is issued at some position is replayed on the real objects: the call must raise, and every later observation (incl. the
final probe of all observables) must equal what the specification predicts as if the call had not been made.
"""
import warnings

from .. import fitgraph as fg
from ..core import Report
from ..replay import replay_parallel
from . import common as cm
from . import c02, c04, c12


def _direct(case):
    """Constructor-level and other one-shot malformed specifications: must raise."""
    warnings.simplefilter("ignore")
    import numpy as np
    from kafe2 import HistContainer, HistFit, IndexedContainer, IndexedFit, XYContainer, XYFit
    name = case["name"]
    raised = False
    try:
        if name == "reserved model parameter name (xy: y_data)":
            exec("def f(x, y_data, b):\n    return y_data * x + b", globals())
            XYFit([[1.0, 2.0, 3.0], [1.0, 2.0, 3.0]], globals()["f"])
        elif name == "reserved model parameter name (indexed: cost)":
            exec("def g(cost, b):\n    return cost * np.arange(3) + b", dict(np=np), globals())
            IndexedFit([1.0, 2.0, 3.0], globals()["g"])
        elif name == "hist constructor: unsorted bin edges":
            HistContainer(bin_edges=[0.0, 2.0, 1.0, 3.0])
        elif name == "hist constructor: n_bins inconsistent with edges":
            HistContainer(n_bins=5, bin_edges=[0.0, 1.0, 2.0])
        elif name == "xy container: x and y of different length":
            XYContainer([1.0, 2.0, 3.0], [1.0, 2.0])
        elif name == "xy fit: matrix error of wrong size":
            XYFit([[1.0, 2.0, 3.0], [1.0, 2.0, 3.0]]).add_matrix_error("y", np.eye(4) * 0.01, "cov")
        elif name == "indexed container: 2-d data":
            IndexedContainer([[1.0, 2.0], [3.0, 4.0]])
        elif name == "poisson likelihood with non-integer data (construction)":
            HistFit((np.array([1.5, 2.0]), np.array([0.0, 1.0, 2.0])), fl_density())
        elif name == "poisson likelihood with negative data (construction)":
            HistFit((np.array([-1.0, 2.0]), np.array([0.0, 1.0, 2.0])), fl_density())
        elif name == "unknown cost function identifier":
            XYFit([[1.0, 2.0, 3.0], [1.0, 2.0, 3.0]], cost_function="chi3")
        elif name == "unknown dynamic error algorithm":
            XYFit([[1.0, 2.0, 3.0], [1.0, 2.0, 3.0]], dynamic_error_algorithm="sometimes")
        elif name == "model function with *args":
            exec("def h(x, *pars):\n    return x", globals())
            XYFit([[1.0, 2.0, 3.0], [1.0, 2.0, 3.0]], globals()["h"])
        else:
            raise RuntimeError("harness: unknown direct case " + name)
    except RuntimeError as exc:
        if "harness" in str(exc):
            raise
        raised = True
    except Exception:
        raised = True
    if not raised:
        return [dict(kind="violation", step=0, kf=None, signature="Rejected: %s was accepted" % name, detail=case)]
    return []


def fl_density():
    from .. import fitlib as fl
    return fl.normal_density


DIRECT = ["reserved model parameter name (xy: y_data)", "reserved model parameter name (indexed: cost)", "hist constructor: unsorted bin edges",
          "hist constructor: n_bins inconsistent with edges", "xy container: x and y of different length", "xy fit: matrix error of wrong size",
          "indexed container: 2-d data", "poisson likelihood with non-integer data (construction)", "poisson likelihood with negative data (construction)",
          "unknown cost function identifier", "unknown dynamic error algorithm", "model function with *args"]


def run(tier, seed, faults=()):
    from ..adapters.errormodel import replay_walk as em_replay
    from ..adapters.fitcache import replay_walk as fc_replay
    from ..adapters.histfill import replay_walk as hf_replay
    from ..adapters.nexus import replay_walk as nx_replay
    rep = Report("C19", tier, seed, "model_checking")
    deep = tier != "quick"
    # graph: cycle-closing and unknown dependencies, assignments to function / alias / empty nodes, replacing a non-child
    shapes = [s for s in c04.SHAPES if s != "fallback2"]      # the open finding KF-C04-FALLBACK is C04's, not a rejection issue
    if not cm.run_mc_stage(rep, "Nexus", c04.cfg(3, faults, shapes=shapes), c04.ACTIONS, label="Nexus"):
        return rep
    raw = cm.tlc.run_paths("GenNexus", c04.cfg(3 if deep else 2, faults, "gen", shapes=shapes), timeout=3000)[0]
    walks = c04.to_walks(raw)
    res = replay_parallel(walks, nx_replay)
    c04.report_issues(rep, walks, res, "graph: all actions incl. rejected ones")
    rep.coverage["traces_validated_against_impl"] = len(walks)
    rep.coverage.setdefault("replayed", {})["graph"] = dict(histories=len(walks))
    # histogram container: unsorted edges, wrong number of heights, data setter, fill / rebin after manual heights
    if not cm.run_mc_stage(rep, "HistFill", cm.mc_cfg(c12.constants(4, 3, faults=faults), c12.INVARIANTS, c12.PROPERTIES), c12.ACTIONS, label="HistFill"):
        return rep
    cm.run_replay_stage(rep, "GenHistFill", cm.gen_cfg(c12.constants(3 if deep else 2, 3, 1, faults=faults, vals="EntryValsSmall")), hf_replay,
                        "histogram container: all actions incl. rejected ones", max_histories=None if deep else 6000, seed=seed)
    # containers and parametric models: every malformed add_error / add_matrix_error variant, wrong-length data, unknown names
    for kind in c02.KINDS:
        if not cm.run_mc_stage(rep, "ErrorModel", cm.mc_cfg(c02.constants(kind, 5, faults=faults), c02.INVARIANTS, c02.PROPERTIES), c02.ACTIONS[kind], label="ErrorModel/" + kind):
            return rep
        cm.run_replay_stage(rep, "GenErrorModel", cm.gen_cfg(c02.constants(kind, 3, off=("Copy", "SetAxis", "SetParams", "SetModelX", "Fill", "ReadData"), faults=faults, max_sources=1)),
                            em_replay, "%s: malformed source specifications at every position, 3 steps" % kind, max_histories=1200 if not deep else 40000, seed=seed)
    # fits: unknown names, malformed constraints, malformed sources, wrong-length parameter lists, incompatible data
    for ftype in ("xy", "indexed", "hist", "unbinned"):
        g = fg.export(ftype)
        mod = {"FCRun.tla": fg.tla_module(g), "GenFCRun.tla": fg.tla_module(g, base="GenFitCache", name="GenFCRun")}
        c = fg.cfg_constants(g, "nonlinear", 4, faults=faults)
        mc = cm.tlc.run_mc("FCRun", cm.mc_cfg(c, ["ReadCorrect"], ["RejectLeavesUnchanged"]), workers=16, timeout=3000, coverage=False, extra_files=mod)
        rep.coverage["states"] = rep.coverage.get("states", 0) + mc["distinct"]
        rep.coverage["transitions"] = rep.coverage.get("transitions", 0) + mc["generated"]
        if mc["violated"]:
            rep.violation("TLC: %s violated in FitCache.tla (%s)" % (mc["violated"], ftype), "", dict(tlc_trace=mc.get("trace")))
            return rep
        off = ("Limit", "Unlimit", "Release", "Fix", "SetParam", "Disable", "Enable")
        c = fg.cfg_constants(g, "nonlinear", 3, max_sources=1, off=off, faults=faults, obs_filter=("cost", "total_cov", "ndf"))
        cm.run_replay_stage(rep, "GenFCRun", cm.gen_cfg(c), fc_replay, "%s fit: malformed calls at every position, 3 steps" % ftype, extra_files=mod,
                            max_histories=900 if not deep else 30000, seed=seed, chunk=25)
    # one-shot malformed specifications
    cases = [dict(name=n, steps=[]) for n in DIRECT]
    res = replay_parallel(cases, _direct, chunk=3)
    cm.report_issues(rep, "direct", cases, res, "constructor-level malformed specifications")
    rep.coverage["direct_cases"] = len(cases)
    rep.coverage["traces_validated_against_impl"] += len(cases)
    rep.assumptions += ["exception TYPES are not compared, only raised / not raised",
                        "'unchanged' is observed through every later read of the history and a final probe of all observables against the specification's ideal (containers, graph, histogram) "
                        "or against a fresh fit that never received the rejected call (fits)"]
    rep.coverage["trusted_base"] = ["TLC", "the adapters of C02 / C03 / C04 / C12"]
    return rep


def replay(path, tier, seed):
    import json
    from ..adapters.errormodel import replay_walk as em_replay
    from ..adapters.fitcache import replay_walk as fc_replay
    from ..adapters.histfill import replay_walk as hf_replay
    obj = json.load(open(path))
    spec = obj.get("spec", "")
    if spec == "Nexus":
        return c04.replay(path, tier, seed)
    fn = {"GenErrorModel": em_replay, "GenFCRun": fc_replay, "GenHistFill": hf_replay}.get(spec)
    return cm.replay_file(Report("C19", tier, seed, "model_checking"), path, fn, spec)
