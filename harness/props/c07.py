"""C07 -- reported parameter uncertainties obey their definitions.

Specs: FixedIndex.tla (TLC-exhaustive bookkeeping between full and free vectors / matrices for every fixed subset up to 5 parameters),
Scenario.tla (for quadratic costs Hessian, profile, cost-rise-1 crossing, n^2 contour and error band are closed forms of the exact rational
covariance matrix), Minimizer.tla (which confidence-level bound a profile uses: C08).  Nonlinear problems: profile points are compared with an
independent re-minimisation on a separate fit with the parameter pinned.
"""
import warnings

import numpy as np

from .. import tlc
from ..core import Report
from ..replay import replay_parallel
from . import c05
from . import common as cm

FI_INV = ["RoundTripMatrix", "RoundTripVector", "FreeIndexIsPosition", "MaskCut"]


def _nonlinear_profile(job):
    """Every profile point = cost re-minimised over the other parameters with that parameter pinned (independent fit object)."""
    warnings.simplefilter("ignore")
    from kafe2 import XYFit
    x = np.array([0.0, 0.5, 1.0, 1.5, 2.0, 2.5, 3.0])
    y = np.array([2.05, 1.58, 1.18, 0.95, 0.71, 0.58, 0.41])

    def model(x, A=2.0, k=0.5):
        return A * np.exp(-k * x)

    def mk():
        f = XYFit([x, y], model, minimizer=job["backend"])
        f.add_error("y", 0.05)
        if job["relmodel"]:
            f.add_error("y", 0.03, relative=True, reference="model")
        return f
    fit = mk()
    fit.do_fit()
    issues = []
    errdef = 1.0
    for name in ("A", "k"):
        prof, _ = fit._fitter.profile(name, size=5, sigma=1.5)
        for xv, yv in zip(prof[0], prof[1]):
            g = mk()
            g.fix_parameter(name, float(xv))
            g.do_fit()
            ref = float(g.cost_function_value)
            if abs(ref - yv) > 0.02 * errdef + 2e-3 * abs(ref):
                issues.append(dict(kind="violation", step=0, kf=None,
                                   signature="Definitions: nonlinear profile point differs from an independent re-minimisation with the parameter pinned [%s]" % job["backend"],
                                   detail=dict(parameter=name, at=float(xv), profile=float(yv), reminimised=ref, job=job)))
                return issues
    asym = fit.asymmetric_parameter_errors
    fmin = float(fit.cost_function_value)
    if asym is not None:
        pv = np.array(fit.parameter_values, dtype=float)
        for j, name in enumerate(("A", "k")):
            for side in (0, 1):
                g = mk()
                g.fix_parameter(name, float(pv[j] + asym[j][side]))
                g.do_fit()
                rise = float(g.cost_function_value) - fmin
                if abs(rise - 1.0) > 0.06:
                    issues.append(dict(kind="violation", step=0, kf=None,
                                       signature="Definitions: asymmetric uncertainty is not where the profile has risen by exactly 1 [%s]" % job["backend"],
                                       detail=dict(parameter=name, side=side, rise=rise, job=job)))
                    return issues
    return issues


def run(tier, seed, faults=()):
    from ..adapters.fixedindex import replay_state
    from ..adapters.scenario import replay_scenario
    rep = Report("C07", tier, seed, "exploration")
    maxn = 4 if tier == "quick" else 5
    const = dict(MaxN=maxn, Faults=list(faults))
    mc = tlc.run_mc("FixedIndex", cm.mc_cfg(const, FI_INV), workers=4, timeout=600, coverage=False)
    rep.coverage["tlc"] = dict(FixedIndex=dict(states=mc["distinct"], invariants=FI_INV, max_parameters=maxn))
    if mc["violated"]:
        rep.violation("TLC: %s violated in FixedIndex.tla" % mc["violated"], "", dict(tlc_trace=mc.get("trace")))
        return rep
    raw, _ = tlc.run_paths("GenFixedIndex", cm.gen_cfg(const), timeout=600)
    jobs = [dict(st=w["init"], backend=b, steps=[]) for w in raw for b in ("iminuit", "scipy")]
    res = replay_parallel(jobs, replay_state, chunk=4)
    cm.report_issues(rep, "GenFixedIndex", jobs, res, "every fixed subset")
    evals = len(jobs)
    # quadratic costs: closed forms from the exact covariance
    grid = "small" if tier == "quick" else "full"
    mc = tlc.run_mc("Scenario", cm.mc_cfg(c05.constants(grid, 1), c05.INVARIANTS), workers=16, timeout=3000, coverage=False)
    rep.coverage["tlc"]["Scenario"] = dict(states=mc["distinct"])
    if mc["violated"]:
        rep.violation("TLC: %s violated in Scenario.tla" % mc["violated"], "", dict(tlc_trace=mc.get("trace")))
        return rep
    scs, _ = c05.scenarios(grid, 1)
    import random
    random.Random(seed).shuffle(scs)
    n1, n2 = (150, 16) if tier == "quick" else (1200, 200)
    sj = [dict(st=s, backend="iminuit", kind="xy" if i % 3 else "indexed", start=None, what=["defs"], steps=[]) for i, s in enumerate(scs[:n1])]
    sj += [dict(st=s, backend="scipy", kind="xy", start=None, what=["defs"], steps=[]) for s in scs[:n2]]
    res = replay_parallel(sj, replay_scenario, chunk=5)
    cm.report_issues(rep, "GenScenario", sj, res, "definitions on quadratic costs")
    evals += len(sj)
    nj = [dict(backend=b, relmodel=r, steps=[]) for b in ("iminuit", "scipy") for r in (False, True)]
    res = replay_parallel(nj, _nonlinear_profile, chunk=1)
    cm.report_issues(rep, "nonlinear", nj, res, "nonlinear profiles")
    evals += len(nj)
    rep.coverage.update(evaluations=evals, distinct_nontrivial=evals,
                        rule="(n, fixed subset, backend) for all n <= %d enumerated by TLC; grid scenarios of Scenario.tla with profile / band / contour / correlation checks; "
                             "nonlinear exponential model with independent re-minimisation; every case runs a real minimisation" % maxn)
    rep.sample(dict(kind="fixed-subset state", **jobs[len(jobs) // 2]["st"]))
    rep.assumptions += ["errordef 1 (chi2) in the bookkeeping replay; nll errordef is exercised through histogram fits in C03/C08 only",
                        "thresholds 2-6 % on uncertainties and cost rises; scipy contours are covered by C08, not here"]
    rep.coverage["trusted_base"] = ["TLC", "harness/adapters/fixedindex.py", "harness/adapters/scenario.py"]
    return rep


def replay(path, tier, seed):
    return c05.replay(path, tier, seed)
