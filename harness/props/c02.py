"""C02 -- total uncertainty is the exact sum of enabled sources at the current reference (spec/ErrorModel.tla)."""
from ..core import Report
from . import common as cm

KINDS = ["indexed", "xy", "hist", "indexedmodel", "xymodel", "histmodel"]
COMMON = ["AddSource", "AddBad", "SetEnabled", "ReadData", "ReadTotal", "Copy"]
ACTIONS = {"indexed": COMMON + ["SetData", "SetDataBad"], "xy": COMMON + ["SetData", "SetDataBad", "SetAxis"],
           "hist": COMMON + ["Fill"], "indexedmodel": COMMON + ["SetParams"], "xymodel": COMMON + ["SetParams", "SetModelX"],
           "histmodel": COMMON + ["SetParams"]}
INVARIANTS = ["ReadCorrect", "CachedTotalIsIdeal", "SymmetricPSD"]
PROPERTIES = ["RejectLeavesUnchanged"]


def constants(kind, depth, max_sources=3, off=(), faults=(), reload=False):
    off = tuple(off) + (() if reload else ("Reload",))
    return dict(Kind='"%s"' % kind, MaxSources=max_sources, MaxDepth=depth, Off=list(off), Faults=list(faults))


def run(tier, seed, faults=(), kinds=KINDS):
    from ..adapters.errormodel import replay_walk
    rep = Report("C02", tier, seed, "model_checking")
    d_mc = 7 if tier == "quick" else 9
    for kind in kinds:
        if not cm.run_mc_stage(rep, "ErrorModel", cm.mc_cfg(constants(kind, d_mc, faults=faults), INVARIANTS, PROPERTIES),
                               ACTIONS[kind], label=kind):
            return rep
    for kind in kinds:
        # (a) every action incl. every malformed variant, 2 steps (thorough: 3); (b) no rejects / copies, 2 sources, 4 steps (thorough: 5)
        da, db = (2, 4) if tier == "quick" else (3, 6)
        if kind in ("xy", "xymodel"):
            db -= 1
        cm.run_replay_stage(rep, "GenErrorModel", cm.gen_cfg(constants(kind, da, faults=faults)), replay_walk,
                            "%s: all actions, %d steps" % (kind, da))
        cm.run_replay_stage(rep, "GenErrorModel", cm.gen_cfg(constants(kind, db, off=("rejects", "Copy"), faults=faults, max_sources=2)),
                            replay_walk, "%s: no rejects, %d steps" % (kind, db))
        n = 40 if tier == "quick" else 400
        cm.run_replay_stage(rep, "GenErrorModel", cm.gen_cfg(constants(kind, 12, off=("rejects",), faults=faults)), replay_walk,
                            "%s: simulate" % kind, simulate=(n, 12, seed + 1))
    rep.assumptions += ["two data points; sizes, values and correlations from small catalogues with both signs of the reference",
                        "matrices compared at rtol 1e-9 (inverse 1e-7) with the spec's exact integer matrix / 200"]
    rep.coverage["trusted_base"] = ["TLC", "harness/adapters/errormodel.py", "numpy (sqrt, inv, eigvalsh on 2x2)"]
    return rep


def replay(path, tier, seed):
    from ..adapters.errormodel import replay_walk
    return cm.replay_file(Report("C02", tier, seed, "model_checking"), path, replay_walk, "GenErrorModel")
