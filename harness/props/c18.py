"""C18 -- a plot draws exactly the fit's numbers (spec/PlotView.tla)."""
from ..core import Report
from . import common as cm

ACTIONS = ["Mutate", "DoFit", "MakePlot", "Draw"]
INVARIANTS = ["DrawnIsCurrent", "PoissonTermIffPoissonCost", "BandOnlyWithResults", "EveryDrawHasDataAndLegend"]
CONFIGS = [("xy", "chi2"), ("hist", "nll"), ("hist", "chi2"), ("hist", "gauss_approximation"), ("indexed", "chi2"), ("indexed", "nll"), ("unbinned", "unbinned")]


def constants(ft, cost, depth, faults=()):
    return dict(FitType='"%s"' % ft, Cost='"%s"' % cost, MaxDepth=depth, Off=[], Faults=list(faults))


def run(tier, seed, faults=()):
    from ..adapters.plotview import replay_walk
    rep = Report("C18", tier, seed, "exploration")
    total = 0
    for ft, cost in CONFIGS:
        if not cm.run_mc_stage(rep, "PlotView", cm.mc_cfg(constants(ft, cost, 5 if tier == "quick" else 6, faults), INVARIANTS), ACTIONS, label="%s/%s" % (ft, cost)):
            return rep
    for ft, cost in CONFIGS:
        big = (ft, cost) in (("xy", "chi2"), ("hist", "nll"))
        raw = cm.run_replay_stage(rep, "GenPlotView", cm.gen_cfg(constants(ft, cost, 3, faults)), replay_walk, "%s/%s: all histories, 3 steps" % (ft, cost),
                                  max_histories=(160 if big else 60) if tier == "quick" else None, seed=seed, chunk=4)
        total += len(raw)
        raw = cm.run_replay_stage(rep, "GenPlotView", cm.gen_cfg(constants(ft, cost, 7, faults)), replay_walk, "%s/%s: simulate" % (ft, cost),
                                  simulate=(10 if tier == "quick" else 120, 7, seed + 5), max_histories=(120 if big else 50) if tier == "quick" else 2500, seed=seed, chunk=4)
        total += len(raw)
    rep.coverage.update(evaluations=total, distinct_nontrivial=total,
                        rule="histories of mutate / fit / make plot / draw(options) enumerated by TLC from PlotView.tla per (fit type, cost kind, one or two fits); every Draw renders "
                             "a real plot on the Agg backend and every artist is compared with the numbers of the fit at that moment")
    rep.assumptions += ["artists are compared at 1e-9 (bands 2e-4: numerical Jacobian); legend numbers to half a unit of their own last digit",
                        "only one of ratio / residual / pull per plot (the library refuses combinations); multi-fit plots: members with shared parameters, parameter changes only"]
    rep.coverage["trusted_base"] = ["TLC", "harness/adapters/plotview.py", "matplotlib artist containers"]
    return rep


def replay(path, tier, seed):
    from ..adapters.plotview import replay_walk
    rep = cm.replay_file(Report("C18", tier, seed, "exploration"), path, replay_walk, "GenPlotView")
    rep.coverage.update(evaluations=1, distinct_nontrivial=1, rule="replay of one saved history")
    return rep
