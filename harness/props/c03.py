"""C03 -- fit observables depend only on the current configuration (spec/FitCache.tla on the exported graph)."""
from .. import fitgraph as fg
from ..core import Report
from . import common as cm

INVARIANTS = ["ReadCorrect", "FreshIsClean", "NothingPinnedAfterFit", "CostNodeSelection"]
PROPERTIES = ["ReadsAreSilent", "RejectLeavesUnchanged"]
TYPES = ["xy", "indexed", "hist", "unbinned"]
LEAN_OFF = ("rejects", "Limit", "Unlimit", "Release")
READ_MUT_OFF = ("rejects", "Limit", "Unlimit", "Release", "SetParam")
BOOK_OFF = ("rejects", "Limit", "Unlimit", "AddSource", "Disable", "Enable", "AddConstraint", "SetParam", "SetAllParams", "SetData", "Reload")
TOGGLE_OFF = ("rejects", "Limit", "Unlimit", "Release", "Fix", "SetParam", "SetAllParams", "SetData", "AddConstraint", "Read")


def stages(tier):
    # mc depth, [(label, depth, max_sources, off, simulate, cap)]
    if tier == "quick":
        return 5, [("2 steps, all actions", 2, 2, (), None, 1000), ("4 steps: add / disable / enable / fit", 4, 1, TOGGLE_OFF, None, 400),
                   ("3 steps, every mutator, reads of cost / total_error / total_cov in between", 3, 1, READ_MUT_OFF, None, 3500),
                   ("5 steps: fit / fix / release with reads of the results in between", 5, 0, BOOK_OFF, None, 1200),
                   ("3 steps, every mutator, reads of the bookkeeping flags in between", 3, 1, ("rejects",), None, 1500),
                   ("simulate", 9, 2, ("rejects",), (14, 9), 1500)]
    return 6, [("3 steps, all actions", 3, 2, (), None, 30000), ("4 steps, lean", 4, 2, LEAN_OFF, None, 30000),
               ("6 steps: fit / fix / release with reads of the results in between", 6, 0, BOOK_OFF, None, 30000),
               ("4 steps, every mutator, reads of the bookkeeping flags in between", 4, 1, ("rejects",), None, 30000),
               ("simulate", 12, 3, ("rejects",), (150, 12), 30000)]


def run(tier, seed, faults=(), types=TYPES, prop="C03"):
    from ..adapters.fitcache import replay_walk, replay_walk_scipy
    from ..replay import replay_parallel
    rep = Report(prop, tier, seed, "model_checking")
    d_mc, plan = stages(tier)
    for ftype in types:
        g = fg.export(ftype)
        mod = {"FCRun.tla": fg.tla_module(g), "GenFCRun.tla": fg.tla_module(g, base="GenFitCache", name="GenFCRun")}
        deas = ["nonlinear", "iterative"] if (ftype == "xy" or (ftype == "indexed" and tier == "thorough")) else ["nonlinear"]
        for dea in deas:
            depth = d_mc - 1 if ftype in ("xy", "indexed") else d_mc
            c = fg.cfg_constants(g, dea, depth, faults=faults)
            mc = cm.tlc.run_mc("FCRun", cm.mc_cfg(c, INVARIANTS, PROPERTIES), workers=16, timeout=3000, coverage=False, extra_files=mod)
            rep.coverage["states"] = rep.coverage.get("states", 0) + mc["distinct"]
            rep.coverage["transitions"] = rep.coverage.get("transitions", 0) + mc["generated"]
            rep.coverage.setdefault("mc", {})["%s/%s" % (ftype, dea)] = dict(distinct=mc["distinct"], generated=mc["generated"],
                                                                               depth=mc["depth"], nodes=len(g["nodes"]), wall_s=round(mc["wall_s"], 1))
            if mc["violated"]:
                rep.violation("TLC: %s violated in FitCache.tla on the exported %s graph (%s)" % (mc["violated"], ftype, dea),
                              "\n".join(l for b in mc.get("trace", []) for l in b.split("\n") if l.startswith("/\\ act") or l.startswith("/\\ obs"))[:3000],
                              dict(spec="FitCache", graph=g, tlc_trace=mc.get("trace")))
                return rep
            for label, depth, ms, off, sim, cap in plan:
                c = fg.cfg_constants(g, dea, depth, max_sources=ms, off=off, faults=faults,
                                     obs_filter=(("perrs", "result", "pvals") if "fix / release" in label else
                                                 ("did_fit", "has_errors", "fixed", "limited", "ndf") if "bookkeeping flags" in label else
                                                 ("cost", "total_error", "total_cov") if "reads of" in label else ()))
                simulate = (sim[0], sim[1], seed + 1) if sim else None
                raw = cm.run_replay_stage(rep, "GenFCRun", cm.gen_cfg(c), replay_walk, "%s/%s: %s" % (ftype, dea, label), simulate=simulate,
                                          extra_files=mod, max_histories=cap, seed=seed, chunk=25)
                names = rep.coverage.setdefault("actions_replayed", {})
                for w in raw:
                    for s in w["steps"]:
                        names[s["a"]["name"]] = names.get(s["a"]["name"], 0) + 1
                if dea == "nonlinear" and label.startswith("simulate"):
                    # second backend on a sample of the same histories
                    sub = raw[:150 if tier == "quick" else 5000]
                    results = replay_parallel(sub, replay_walk_scipy, chunk=10)
                    cm.report_issues(rep, "GenFCRun", sub, results, "%s/scipy" % ftype)
                    rep.coverage["replayed"]["%s/nonlinear/scipy: sample of simulate" % ftype] = dict(histories=len(sub))
                    rep.coverage["traces_validated_against_impl"] += len(sub)
    need = ["AddSource", "Disable", "Enable", "AddConstraint", "SetParam", "SetAllParams", "Fix", "SetData", "DoFit", "Read"]
    missing = [a for a in need if rep.coverage.get("actions_replayed", {}).get(a, 0) == 0]
    if missing:
        raise RuntimeError("vacuity: actions never replayed: %s" % missing)
    rep.assumptions += ["configurations restricted to a positive-definite total covariance whenever a source is declared (as the property states)",
                        "replacing the data while model-referenced sources are declared is excluded: known finding KF-C03-DATA-MODEL-SOURCES",
                        "post-fit comparisons: parameters within 0.02 sigma, cost 1e-3, uncertainties 5 %; everything else 1e-9"]
    rep.coverage["trusted_base"] = ["TLC", "harness/fitgraph.py (graph export + the table of what each named node really reads)",
                                    "harness/adapters/fitcache.py", "harness/fitlib.py"]
    return rep


def replay(path, tier, seed):
    from ..adapters.fitcache import replay_walk
    return cm.replay_file(Report("C03", tier, seed, "model_checking"), path, replay_walk, "GenFCRun")
