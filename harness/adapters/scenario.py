"""Adapter: Scenario.tla grid scenarios -> real fits, compared with the specification's exact rationals."""
import warnings

import numpy as np


def basis_fn(b):
    if b == "one":
        return lambda x: np.ones_like(np.asarray(x, dtype=float))
    if b == "x":
        return lambda x: np.asarray(x, dtype=float)
    if b == "x2":
        return lambda x: np.asarray(x, dtype=float) ** 2
    if b == "alt":
        return lambda x: np.where(np.mod(np.round(np.asarray(x, dtype=float)), 2) == 0, 1.0, -1.0)
    raise ValueError(b)


def make_model(basis, names=("p1", "p2")):
    f1, f2 = basis_fn(basis[0]), basis_fn(basis[1])
    ns = {"f1": f1, "f2": f2}
    exec("def linmodel(x, %s=1.0, %s=1.0):\n    return %s * f1(x) + %s * f2(x)\n" % (names[0], names[1], names[0], names[1]), ns)
    return ns["linmodel"]


def rat(q):
    return q[0] / q[1]


def build_fit(sc, backend="iminuit", kind="xy", start=None):
    from kafe2 import IndexedFit, XYFit
    warnings.simplefilter("ignore")
    x = np.asarray(sc["x"], dtype=float)
    d = np.asarray(sc["d"], dtype=float)
    sig = 4.0 / np.sqrt(np.asarray(sc["w"], dtype=float))
    model = make_model(sc["basis"])
    if kind == "xy":
        fit = XYFit([x, d], model, minimizer=backend)
        fit.add_error("y", sig)
    else:
        f1, f2 = basis_fn(sc["basis"][0])(x), basis_fn(sc["basis"][1])(x)
        ns = {"f1": f1, "f2": f2}
        exec("def idxmodel(p1=1.0, p2=1.0):\n    return p1 * f1 + p2 * f2\n", ns)
        fit = IndexedFit(d, ns["idxmodel"], minimizer=backend)
        fit.add_error(sig)
    if start is not None:
        fit.set_all_parameter_values(list(start))
    if sc["fp"]:
        fit.fix_parameter("p%d" % sc["fp"], float(sc["fv"]))
    if sc["cp"]:
        fit.add_parameter_constraint("p%d" % sc["cp"], float(sc["cv"]), 4.0 / np.sqrt(sc["cw"]))
    return fit, sig


def expected(st):
    sol = np.array([rat(st["sol"][0]), rat(st["sol"][1])])
    c11, c12, c22 = rat(st["cov"][0]), rat(st["cov"][1]), rat(st["cov"][2])
    cov = np.array([[c11, c12], [c12, c22]])
    return sol, cov, rat(st["chi2x16"]) / 16.0, st["ndf"]


def check_gls(st, backend, kind, start, what):
    """what: subset of {"gls", "defs"}.  Returns list of (signature, detail)."""
    sc = st["sc"]
    out = []
    fit, sig = build_fit(sc, backend, kind, start)
    fit.do_fit()
    sol, cov, chi2, ndf = expected(st)
    free = [j for j in (0, 1) if sc["fp"] != j + 1]
    sd = np.sqrt(np.diag(cov))
    pv = np.array(fit.parameter_values, dtype=float)
    tag = "[%s/%s]" % (kind, backend)
    if "gls" in what:
        for j in (0, 1):
            tol = 0.02 * sd[j] + 1e-7 if j in free else 1e-12
            if abs(pv[j] - sol[j]) > tol:
                out.append(("GLS: parameter value differs from (W^T V^-1 W)^-1 W^T V^-1 d %s" % tag,
                            dict(parameter=j + 1, expected=sol[j], actual=pv[j], sigma=sd[j], scenario=sc, fixed=sc["fp"], constraint=sc["cp"])))
                return out
        pc = np.asarray(fit.parameter_cov_mat, dtype=float)
        if not np.allclose(pc, cov, rtol=0.02, atol=2e-3 * float(np.max(np.abs(cov)))):
            out.append(("GLS: parameter covariance differs from (W^T V^-1 W)^-1 %s" % tag, dict(expected=cov.tolist(), actual=pc.tolist(), scenario=sc)))
            return out
        cost = float(fit.cost_function_value) - float(np.sum(np.log(sig ** 2)))
        if abs(cost - chi2) > 1e-3 * max(1.0, chi2):
            out.append(("GLS: chi2 at the optimum differs from r^T V^-1 r %s" % tag, dict(expected=chi2, actual=cost, scenario=sc)))
            return out
        if fit.ndf != ndf:
            out.append(("ndf %s" % tag, dict(expected=ndf, actual=fit.ndf)))
            return out
        asym = fit.asymmetric_parameter_errors
        if asym is not None:
            for j in free:
                if not np.allclose([-asym[j][0], asym[j][1]], [sd[j], sd[j]], rtol=0.03, atol=1e-6):
                    out.append(("GLS: asymmetric uncertainties differ from +- the symmetric ones %s" % tag,
                                dict(parameter=j + 1, expected=sd[j], actual=list(asym[j]), scenario=sc)))
                    return out
    if "defs" in what:
        # C07 on quadratic costs: everything is a closed form of the exact covariance matrix
        perr = np.array(fit.parameter_errors, dtype=float)
        for j in (0, 1):
            e = sd[j] if j in free else 0.0
            if abs(perr[j] - e) > 0.02 * max(e, 1e-9) + 1e-9:
                out.append(("Definitions: symmetric uncertainty is not sqrt(diag(cov)) %s" % tag, dict(parameter=j + 1, expected=e, actual=perr[j], scenario=sc)))
                return out
        cor = fit.parameter_cor_mat
        if cor is not None and len(free) == 2:
            e = cov[0, 1] / (sd[0] * sd[1])
            if abs(float(cor[0][1]) - e) > 0.02:
                out.append(("Definitions: correlation matrix is not the normalised covariance %s" % tag, dict(expected=e, actual=float(cor[0][1]), scenario=sc)))
                return out
        pc = np.asarray(fit.parameter_cov_mat, dtype=float)
        for j in (0, 1):
            if j not in free and (np.any(pc[j, :] != 0) or np.any(pc[:, j] != 0)):
                out.append(("Definitions: fixed parameter has non-zero rows / columns in the covariance matrix %s" % tag, dict(cov=pc.tolist(), scenario=sc)))
                return out
        # profile of each free parameter: chi2_min + t^2 / cov_jj (cost re-minimised over the other parameter, exactly quadratic)
        fmin = float(fit.cost_function_value)
        for j in free:
            name = "p%d" % (j + 1)
            prof, _ = fit._fitter.profile(name, size=5, sigma=2.0)
            xs, ys = np.asarray(prof[0]), np.asarray(prof[1])
            exp_y = fmin + (xs - sol[j]) ** 2 / cov[j, j]
            if not np.allclose(ys, exp_y, rtol=2e-3, atol=0.03):
                out.append(("Definitions: profile differs from the cost re-minimised with the parameter pinned %s" % tag,
                            dict(parameter=j + 1, x=xs.tolist(), expected=exp_y.tolist(), actual=ys.tolist(), scenario=sc)))
                return out
        # error band (xy only): sqrt(diag(J C J^T)) with the analytic J of the linear model
        if kind == "xy":
            xs = np.linspace(min(sc["x"]) - 0.5, max(sc["x"]) + 0.5, 5)
            J = np.array([basis_fn(sc["basis"][0])(xs), basis_fn(sc["basis"][1])(xs)])
            if sc["basis"][0] != "alt" and sc["basis"][1] != "alt":
                exp_b = np.sqrt(np.einsum("ik,ij,jk->k", J, cov, J))
                got_b = np.asarray(fit.error_band(xs), dtype=float)
                if not np.allclose(got_b, exp_b, rtol=0.03, atol=1e-6):
                    out.append(("Definitions: error band differs from sqrt(diag(J C J^T)) %s" % tag, dict(expected=exp_b.tolist(), actual=got_b.tolist(), scenario=sc)))
                    return out
        # contour (both free): points where the two-parameter profile has risen by n^2 = 1
        if len(free) == 2 and backend == "iminuit":
            for nsig in (1.0, 2.0):
                c = fit._fitter.contour("p1", "p2", sigma=nsig, numpoints=12)
                if c is not None:
                    pts = np.asarray(c.xy_points, dtype=float)
                    if pts.shape[0] == 2:
                        pts = pts.T
                    ci = np.linalg.inv(cov)
                    dq = pts - sol[None, :]
                    rise = np.einsum("ni,ij,nj->n", dq, ci, dq)
                    if not np.allclose(rise, nsig ** 2, rtol=0.06, atol=0.06):
                        out.append(("Definitions: %g-sigma contour points do not lie where the profile has risen by %g %s" % (nsig, nsig ** 2, tag),
                                    dict(rise=rise.tolist(), scenario=sc)))
                        return out
                    if getattr(c, "sigma", nsig) != nsig:
                        out.append(("Definitions: contour object reports another sigma than requested %s" % tag, dict(requested=nsig, reported=c.sigma)))
                        return out
        # the public route: ContoursProfiler.get_profile / get_contours must give the same answers
        if backend == "iminuit" and len(free) == 2:
            from kafe2.fit.tools.contours_profiler import ContoursProfiler
            cp = ContoursProfiler(fit, profile_points=5, profile_subtract_min=False, contour_points=12, contour_sigma_values=(1.0, 2.0),
                                  contour_method_kwargs=dict(numpoints=12))
            for j in free:
                prof = np.asarray(cp.get_profile("p%d" % (j + 1), sigma=2.0), dtype=float)
                exp_y = fmin + (prof[0] - sol[j]) ** 2 / cov[j, j]
                if not np.allclose(prof[1], exp_y, rtol=2e-3, atol=0.03):
                    out.append(("Definitions: ContoursProfiler.get_profile differs from the cost re-minimised with the parameter pinned %s" % tag,
                                dict(parameter=j + 1, x=prof[0].tolist(), expected=exp_y.tolist(), actual=prof[1].tolist(), scenario=sc)))
                    return out
            sub = np.asarray(cp.get_profile("p1", sigma=2.0, subtract_min=True), dtype=float)
            if not np.allclose(sub[1], (sub[0] - sol[0]) ** 2 / cov[0, 0], rtol=2e-3, atol=0.03):
                out.append(("Definitions: ContoursProfiler.get_profile(subtract_min=True) is not the rise above the minimum %s" % tag,
                            dict(x=sub[0].tolist(), actual=sub[1].tolist(), scenario=sc)))
                return out
            for clo, c in cp.get_contours("p1", "p2"):
                if c is None:
                    continue
                pts = np.asarray(c.xy_points, dtype=float)
                if pts.shape[0] == 2:
                    pts = pts.T
                dq = pts - sol[None, :]
                rise = np.einsum("ni,ij,nj->n", dq, np.linalg.inv(cov), dq)
                if not np.allclose(rise, clo.sigma ** 2, rtol=0.06, atol=0.06):
                    out.append(("Definitions: ContoursProfiler.get_contours: %g-sigma contour not where the profile has risen by %g %s" % (clo.sigma, clo.sigma ** 2, tag),
                                dict(rise=rise.tolist(), scenario=sc)))
                    return out
    return out


def replay_scenario(job):
    """job: dict(st=<state record>, backend, kind, start, what)."""
    warnings.simplefilter("ignore")
    try:
        res = check_gls(job["st"], job["backend"], job["kind"], job.get("start"), job["what"])
    except Exception as exc:
        import traceback
        return [dict(kind="violation", step=0, kf=None, signature="scenario raised %s [%s/%s]" % (type(exc).__name__, job["kind"], job["backend"]),
                     detail=dict(exc=traceback.format_exc()[-600:], scenario=job["st"]["sc"]))]
    return [dict(kind="violation", step=0, kf=None, signature=s, detail=d) for s, d in res]
