"""Adapter: Format.tla jobs -> kafe2.fit._base.format.ParameterFormatter (C17, first sentence).

A job is  uncertainty s*10^e, value (+-)x*10^e, n significant digits, with the spec's tie biases sb / xb.  The floats are built from the
decimal strings; a job is replayed only if its biases are those of the actual binary floats (decimal tie just above / below / exact).
The real string is parsed back into (digits, place) and must be a member of the spec's admissible set; independently the three clauses
of the property are evaluated on the parsed numbers with exact decimal arithmetic."""
import re
from decimal import Decimal
from fractions import Fraction

from kafe2.fit._base.format import ParameterFormatter

NUM = r"[-+]?(?:\d+\.?\d*|\.\d+)(?:[eE][-+]?\d+)?"


def true_bias(N, e):
    """how the binary float of N*10^e lies relative to the decimal number"""
    f = float("%de%d" % (N, e))
    d = Fraction(f) - Fraction(N) * Fraction(10) ** e
    return "even" if d == 0 else ("up" if d > 0 else "down")


def can_tie(N):
    if N == 0:
        return False
    while N % 10 == 0:
        N //= 10
    return N % 10 == 5


def parse_number(txt):
    """decimal string -> (Fraction value, place of the last displayed digit, negative?)"""
    t = txt.strip()
    m = re.fullmatch(r"([-+]?)(\d*)\.?(\d*)(?:[eE]([-+]?\d+))?", t)
    if not m or not (m.group(2) or m.group(3)):
        raise ValueError("not a number: %r" % txt)
    sign, ip, fp, ex = m.group(1), m.group(2), m.group(3), int(m.group(4) or 0)
    digits = int((ip + fp) or "0")
    place = ex - len(fp)
    return Fraction(digits) * Fraction(10) ** place, place, sign == "-"


def delatex(s):
    s = s.replace("$", "")
    s = re.sub(r"\\times10\^\{(-?\d+)\}", lambda m: "e%s" % m.group(1), s)
    return s.replace("{", "").replace("}", "")


def split_pm(s, latex):
    if latex:
        s = delatex(s)
        a, b = s.split("\\pm")
    else:
        a, b = s.split("+/-")
    return a.strip(), b.strip()


def in_units(val, e):
    q = val / Fraction(10) ** e
    return int(q) if q.denominator == 1 else None


def check_job(job, allowed):
    """Returns a list of issue dicts."""
    s, x, n, e = job["s"], job["x"], job["n"], job["e"]
    if (can_tie(s) and true_bias(s, e) != job["sb"]) or (can_tie(x) and true_bias(x, e) != job["xb"]):
        return None    # this bias combination is not the one of the actual floats
    sigma = float("%de%d" % (s, e))
    value = float("%s%de%d" % ("-" if job["neg"] else "", x, e))
    issues = []
    for latex in (False, True):
        pf = ParameterFormatter("a", value=value, error=sigma)
        txt = pf.get_formatted(n_significant_digits=n, format_as_latex=latex)
        try:
            vs, es = split_pm(txt, latex)
            v, vplace, vneg = parse_number(vs)
            u, uplace, _ = parse_number(es)
        except Exception as exc:
            issues.append(dict(kind="violation", kf=None, signature="unparsable value +/- uncertainty string (%s)" % ("latex" if latex else "plain"),
                               detail=dict(job=job, text=txt, exc=repr(exc))))
            continue
        tv, ts = Fraction(x) * Fraction(10) ** e, Fraction(s) * Fraction(10) ** e
        # the three clauses, on the parsed string
        sci_latex = latex and "times" in txt           # the LaTeX conversion strips trailing zeros of a mantissa
        clause = None
        d10 = Fraction(10)
        # displayed uncertainty = true one rounded to n significant digits
        lead = len(str(int(u / d10 ** uplace))) if u != 0 else 1
        if abs(u - ts) * 2 > d10 ** uplace or (lead != n and not sci_latex) or u == 0:
            clause = "UncertaintyRounded"
        elif abs(abs(v) - tv) * 2 > d10 ** uplace:
            clause = "HalfUnit"
        elif tv >= ts and vplace > uplace and not sci_latex:
            clause = "ShownDownTo"
        elif x != 0 and vneg != job["neg"] and v != 0:
            clause = "Sign"
        if clause:
            issues.append(dict(kind="violation", kf=None, signature="%s: value +/- uncertainty string (%s, n=%d)" % (clause, "latex" if latex else "plain", n),
                               detail=dict(value=value, error=sigma, n=n, text=txt)))
            continue
        if not sci_latex:
            vn, un = in_units(abs(v), e), in_units(u, e)
            got = (vn, vplace, un, uplace)
            adm = [(d["val"]["num"], d["val"]["place"], d["err"]["num"], d["err"]["place"]) for d in allowed]
            if got not in adm:
                issues.append(dict(kind="drift", signature="string satisfies the property but is not one the transcribed algorithm yields",
                                   detail=dict(value=value, error=sigma, n=n, text=txt, got=got, admissible=adm)))
    return issues


def check_other_modes(job):
    """fixed parameters, no uncertainty, asymmetric uncertainties, unrounded mode -- from the same job"""
    s, x, n, e = job["s"], job["x"], job["n"], job["e"]
    sigma = float("%de%d" % (s, e))
    value = float("%s%de%d" % ("-" if job["neg"] else "", x, e))
    tv = Fraction(value)
    d10 = Fraction(10)
    issues = []

    def own_digit(txt, true, what, latex=False):
        t = delatex(txt) if latex else txt
        t = t.replace("(fixed)", "").strip()
        v, place, neg = parse_number(t)
        v = -v if neg else v
        if abs(v - true) * 2 > d10 ** place:
            issues.append(dict(kind="violation", kf=None, signature="OwnLastDigit: %s" % what, detail=dict(value=value, error=sigma, n=n, text=txt)))

    for latex in (False, True):
        pf = ParameterFormatter("a", value=value, error=sigma)
        pf.fixed = True
        txt = pf.get_formatted(n_significant_digits=n, format_as_latex=latex)
        if "(fixed)" not in txt:
            issues.append(dict(kind="violation", kf=None, signature="FixedMarked: fixed parameter not marked as fixed", detail=dict(text=txt)))
        else:
            own_digit(txt, tv, "fixed parameter value", latex)
        pf = ParameterFormatter("a", value=value, error=None)
        own_digit(pf.get_formatted(n_significant_digits=n, format_as_latex=latex), tv, "value without uncertainty", latex)
        pf = ParameterFormatter("a", value=value, error=sigma)
        txt = pf.get_formatted(n_significant_digits=n, round_value_to_error=False, format_as_latex=latex)
        a, b = split_pm(txt, latex)
        own_digit(a, tv, "unrounded mode value")
        own_digit(b, Fraction(sigma), "unrounded mode uncertainty")
    # asymmetric: the smaller uncertainty is s, the larger one is the job's value (if it is larger); the value is their sum
    if x > s:
        big = float("%de%d" % (x, e))
        val = sigma + big
        for order in ("down_small", "up_small"):
            asym = (-sigma, big) if order == "down_small" else (-big, sigma)
            for latex in (False, True):
                pf = ParameterFormatter("a", value=val, error=sigma, asymmetric_error=asym)
                txt = pf.get_formatted(n_significant_digits=n, asymmetric_error=True, format_as_latex=latex)
                try:
                    if latex:
                        m = re.fullmatch(r"\$\{(.*)\}\^\{\+(.*)\}_\{-(.*)\}\$", txt)
                        parts = [delatex(g) for g in m.groups()]
                    else:
                        m = re.fullmatch(r"(.*) \+ (.*) \(up\) - (.*) \(down\)", txt)
                        parts = list(m.groups())
                    v, vplace, _ = parse_number(parts[0])
                    up, upplace, _ = parse_number(parts[1])
                    dn, dnplace, _ = parse_number(parts[2])
                except Exception as exc:
                    issues.append(dict(kind="violation", kf=None, signature="unparsable asymmetric string", detail=dict(text=txt, exc=repr(exc))))
                    continue
                small, splace, large = (dn, dnplace, up) if order == "down_small" else (up, upplace, dn)
                sci_latex = latex and "times" in txt
                clause = None
                if abs(small - Fraction(sigma)) * 2 > d10 ** splace:
                    clause = "UncertaintyRounded (smaller asymmetric uncertainty)"
                elif abs(large - Fraction(big)) * 2 > d10 ** splace:
                    clause = "HalfUnit (larger asymmetric uncertainty)"
                elif abs(v - Fraction(val)) * 2 > d10 ** splace:
                    clause = "HalfUnit (value, asymmetric)"
                elif vplace > splace and not sci_latex:
                    clause = "ShownDownTo (value, asymmetric)"
                if clause:
                    issues.append(dict(kind="violation", kf=None, signature=clause, detail=dict(value=val, asym=asym, n=n, text=txt)))
    return issues


def replay_walk(walk):
    job = walk["first"]
    allowed = walk["steps"][0]["o"]["all"]
    issues = check_job(job, allowed)
    if issues is None:
        return []
    issues = issues + check_other_modes(job)
    for i in issues:
        i["step"] = 0
    return issues[:3]
