"""Adapter: Forms.tla histories -> two real fits declared side by side in different forms (C14).

The left fit receives every abstract source / constraint in the form chosen by the specification, the right fit in the canonical form
(explicit absolute covariance matrix; absolute constraint).  Observables compared pairwise AND with the specification's normal form:
total covariance matrix, cost at common parameter points, constraint cost, do_fit() results."""
import os
import tempfile
import warnings

import numpy as np
import yaml

X = [1.0, 2.0, 3.0]
POINTS = [(1.0, 1.0), (0.4, 0.7), (1.3, 2.2)]          # inside every limit of the catalogue
HPOINTS = [(2.0, 0.7), (1.8, 0.6), (2.1, 0.75)]         # mean / width of the density, inside every limit
MODEL_SRC = "def linear_model(x, a=1.0, b=1.0):\n    return a * x + b\n"
IDX_SRC = "def linear_model(a=1.0, b=1.0):\n    return a * np.arange(1.0, 4.0) + b\n"


def linear_model(x, a=1.0, b=1.0):
    return a * x + b


def idx_model(a=1.0, b=1.0):
    return a * np.arange(1.0, 4.0) + b


idx_model.__name__ = "linear_model"


HSAMPLE = [0.3, 0.8, 1.1, 1.4, 1.6, 1.9, 2.1, 2.2, 2.4, 2.5, 2.6, 2.7, 2.9, 3.0, 3.1, 3.3, 3.4, 3.6, 3.9, 4.2, 4.6, 2.45, 2.55, 1.7, 3.2]
DENS_SRC = "def density(x, a=2.5, b=1.0):\n    return np.exp(-0.5 * ((x - a) / b) ** 2) / np.sqrt(2.0 * np.pi * b ** 2)\n"


def density(x, a=2.5, b=1.0):
    return np.exp(-0.5 * ((x - a) / b) ** 2) / np.sqrt(2.0 * np.pi * b ** 2)


def setup_values(kind, st):
    """concrete numbers of a set-up item for this kind of fit (the spec's small integers are used as they are for xy / indexed)"""
    if kind in ("hist", "unbinned"):      # parameters are the mean and width of a normal density
        if st["kind"] == "fix":
            return dict(p=st["p"], v={1: {0: 2.0, 2: 3.0}, 2: {0: 0.5, 2: 1.5}}[st["p"]][st["v"]])
        if st["kind"] == "limit":
            return dict(p=st["p"], lo={1: 0, 2: 0}[st["p"]], hi={1: 2.2, 2: 0.8}[st["p"]])      # the upper limit is active
        return dict(v=[2.0 + 0.2 * st["v"][0], 1.0 + 0.1 * st["v"][1]])
    if st["kind"] == "fix":
        return dict(p=st["p"], v=float(st["v"]) if st["v"] else 0)        # "fixed at 0" is passed as the integer 0
    if st["kind"] == "limit":
        return dict(p=st["p"], lo=st["lo"], hi=st["hi"])
    return dict(v=[float(t) for t in st["v"]])


def direct_setup(fit, kind, st):
    sv = setup_values(kind, st)
    if st["kind"] == "fix":
        fit.fix_parameter("ab"[sv["p"] - 1], sv["v"])
    elif st["kind"] == "limit":
        fit.limit_parameter("ab"[sv["p"] - 1], sv["lo"], sv["hi"])
    else:
        fit.set_all_parameter_values(sv["v"])


def src_numbers(src, d):
    n = len(d)
    rho = src["h"] / 2.0
    cor = np.full((n, n), rho) + np.eye(n) * (1.0 - rho)
    if src["kind"] == "abs":
        sig = np.full(n, src["s"] / 10.0)
        rel = None
    elif src["kind"] == "relm":
        rel = src["s"] / 100.0
        sig = rel * np.array([2.0, 3.0, 4.0])           # model at the default parameters
    else:
        rel = src["s"] / 100.0
        sig = rel * np.asarray(d, dtype=float)          # signed
    return rho, cor, sig, rel


def direct_add(fit, kind, src, form, d, alt=0):
    """add the source through the Python API in the given form"""
    pre = ("y",) if kind == "xy" else ()
    n = len(d)
    rho, cor, sig, rel = src_numbers(src, d)
    relative = src["kind"] in ("rel", "relm")
    ref = dict(reference="model") if src["kind"] == "relm" else {}
    if form == "scalar":
        fit.add_error(*pre, err_val=(rel if relative else float(sig[0])), correlation=rho, relative=relative, **ref)
    elif form == "vector":
        fit.add_error(*pre, err_val=([rel] * n if relative else [float(v) for v in sig]), correlation=rho, relative=relative, **ref)
    elif form == "cov":
        m = cor * rel ** 2 if relative else cor * np.outer(sig, sig)
        fit.add_matrix_error(*pre, err_matrix=m, matrix_type="cov", relative=relative)
    elif form == "cor":
        ev = (rel if relative else float(sig[0]))
        if alt % 2:
            ev = [ev] * n
        fit.add_matrix_error(*pre, err_matrix=cor, matrix_type="cor", err_val=ev, relative=relative)
    elif form == "abs_vector":
        fit.add_error(*pre, err_val=[abs(float(v)) for v in sig], correlation=rho)
    elif form == "abs_cov":
        fit.add_matrix_error(*pre, err_matrix=cor * np.outer(sig, sig), matrix_type="cov")
    else:
        raise RuntimeError("adapter: form %r is not a direct form" % form)


def yaml_source_entry(src, form, d):
    """the entry of the y_errors / errors list"""
    n = len(d)
    rho, cor, sig, rel = src_numbers(src, d)
    relative = src["kind"] == "rel"
    if form == "yaml_short":
        if relative:
            pct = src["s"]
            return ["%d%%" % pct] * n
        v = float(sig[0])
        return [int(v) if v == int(v) else v] * n
    if src["h"] == 1:       # a matrix source, explicit
        return dict(type="matrix", matrix_type="cor", matrix=cor.tolist(), error_value=(rel if relative else float(sig[0])), relative=relative)
    return dict(type="simple", error_value=(rel if relative else float(sig[0])), relative=relative, correlation_coefficient=rho)


def direct_constraint(fit, c, form):
    names = ["a", "b"]
    if c["kind"] == "simple":
        v, u = float(c["v"]), c["u"] / 10.0
        if form == "abs":
            fit.add_parameter_constraint("a", v, u)
        elif form == "rel":
            fit.add_parameter_constraint("a", v, u / abs(v), relative=True)
        else:
            raise RuntimeError("adapter: constraint form %r" % form)
        return
    v = np.array([float(t) for t in c["v"]])
    u = np.array([t / 10.0 for t in c["u"]])
    rho = c["h"] / 2.0
    cor = np.array([[1.0, rho], [rho, 1.0]])
    cov = cor * np.outer(u, u)
    if form == "cov":
        fit.add_matrix_parameter_constraint(names, v, cov)
    elif form == "cor":
        fit.add_matrix_parameter_constraint(names, v, cor, matrix_type="cor", uncertainties=u)
    elif form == "rel_cov":
        fit.add_matrix_parameter_constraint(names, v, cov / np.outer(v, v), relative=True)
    elif form == "rel_cor":
        # relative uncertainties u/|v|; the correlation of the RELATIVE deviations changes sign with v_i v_j
        fit.add_matrix_parameter_constraint(names, v, cor * np.sign(np.outer(v, v)), matrix_type="cor", uncertainties=u / np.abs(v), relative=True)
    else:
        raise RuntimeError("adapter: constraint form %r" % form)


def yaml_constraint(c, alt=0):
    if c["kind"] == "simple":
        if alt % 2:      # the relative form of the mapping shorthand
            return "dict", {"a": dict(value=float(c["v"]), uncertainty=c["u"] / 10.0 / abs(float(c["v"])), relative=True)}
        return "dict", {"a": dict(value=float(c["v"]), uncertainty=c["u"] / 10.0)}
    u = [t / 10.0 for t in c["u"]]
    rho = c["h"] / 2.0
    return "list", dict(type="matrix", names=["a", "b"], values=[float(t) for t in c["v"]], matrix=[[1.0, rho], [rho, 1.0]], matrix_type="cor",
                        uncertainties=u)


def build_side(kind, d, decls, model_form="callable"):
    """decls: list of dict(item, form).  Returns (fit, notes)."""
    from kafe2 import IndexedFit, XYFit
    from kafe2.fit._base.fit import FitBase
    from kafe2.fit.util import wrapper
    notes = []
    y = [float(v) for v in d]
    is_src = lambda e: e["item"]["kind"] in ("abs", "rel", "relm")
    is_setup = lambda e: e["item"]["kind"] in ("fix", "limit", "start")
    yaml_items = [e for e in decls if e["form"] in ("yaml_short", "yaml_full", "yaml")]
    wrap_items = [e for e in decls if e["form"] == "wrapper"]
    done = set()
    if yaml_items or model_form in ("yaml_source",):
        short = any(e["form"] in ("yaml_short", "yaml") for e in yaml_items) or not yaml_items
        errs = [yaml_source_entry(e["item"], e["form"], d) for e in yaml_items if is_src(e)]
        if len(errs) == 1 and isinstance(errs[0], list) and short:
            v0 = errs[0]
            errs = v0[0] if all(t == v0[0] for t in v0) and len(decls) % 2 else v0      # scalar shorthand or the list
        cons = [yaml_constraint(e["item"], alt=len(decls) + k) for k, e in enumerate(yaml_items) if not is_src(e) and not is_setup(e)]
        doc = dict(type={"hist": "histogram"}.get(kind, kind))
        model = {"xy": MODEL_SRC, "indexed": IDX_SRC}.get(kind, DENS_SRC)
        for e in yaml_items:
            if is_setup(e):
                sv = setup_values(kind, e["item"])
                if e["item"]["kind"] == "fix":
                    doc.setdefault("fixed_parameters", {})["ab"[sv["p"] - 1]] = sv["v"]
                else:
                    doc.setdefault("limited_parameters", {})["ab"[sv["p"] - 1]] = [sv["lo"], sv["hi"]]
        if kind == "hist":
            doc.update(n_bins=5, bin_range=[0.0, 5.0], raw_data=HSAMPLE, model_density_function=model)
        elif kind == "unbinned":
            doc.update(data=HSAMPLE, model_function=model)
        elif short:      # top-level keys
            if kind == "xy":
                doc.update(x_data=X, y_data=y)
                if errs != []:
                    doc["y_errors"] = errs
            else:
                doc.update(data=y)
                if errs != []:
                    doc["errors"] = errs
            doc["model_function"] = model
        else:
            ds = dict(type=kind)
            if kind == "xy":
                ds.update(x_data=X, y_data=y)
                if errs:
                    ds["y_errors"] = errs
                pm = dict(type="xy", x_data=X, model_function=dict(python_code=model))
            else:
                ds.update(data=y)
                if errs:
                    ds["errors"] = errs
                pm = dict(type="indexed", shape_like=y, model_function=dict(python_code=model))
            doc.update(dataset=ds, parametric_model=pm)
        if cons:
            if all(k == "dict" for k, _ in cons):
                merged = {}
                for _, c in cons:
                    merged.update(c)
                doc["parameter_constraints"] = merged
            else:
                doc["parameter_constraints"] = [c if k == "list" else dict(type="simple", name="a", **c["a"]) for k, c in cons]
        fd, path = tempfile.mkstemp(suffix=".yml", prefix="c14-")
        os.close(fd)
        try:
            with open(path, "w") as f:
                yaml.safe_dump(doc, f)
            fit = FitBase.from_file(path)
        finally:
            os.remove(path)
        done.update(id(e) for e in yaml_items)
        notes.append("yaml:%s" % ("short" if short else "full"))
    elif wrap_items:
        kw = {}
        pre = "y_" if kind == "xy" else ""
        to_model = any(e["item"]["kind"] == "relm" for e in wrap_items)      # errors_rel_to_model is one switch per call
        for e in wrap_items:
            if is_src(e):
                src = e["item"]
                rho, cor, sig, rel = src_numbers(src, d)
                key = pre + "error" + ("_cor" if src["h"] == 2 else "") + ("_rel" if src["kind"] in ("rel", "relm") else "")
                if key in kw or (src["kind"] == "rel" and to_model):
                    continue          # the keyword is taken: this item is added directly afterwards
                val = rel if src["kind"] in ("rel", "relm") else float(sig[0])
                if src["h"] == 2 and (len(decls) + src["s"]) % 2:
                    # a sequence for error_cor / error_cor_rel means one fully correlated source PER ENTRY: (0.6 v, 0.8 v) add up to v in quadrature
                    val = [0.6 * val, 0.8 * val]
                kw[key] = val
                done.add(id(e))
            elif is_setup(e):
                sv = setup_values(kind, e["item"])
                if e["item"]["kind"] == "fix":
                    kw["fixed"] = ("ab"[sv["p"] - 1], sv["v"])
                elif e["item"]["kind"] == "limit":
                    kw["limits"] = ("ab"[sv["p"] - 1], sv["lo"], sv["hi"])
                else:
                    kw["p0"] = sv["v"]
                done.add(id(e))
            else:
                c = e["item"]
                if "constraints" in kw or c["kind"] != "simple":
                    continue
                kw["constraints"] = ("a", float(c["v"]), c["u"] / 10.0)
                done.add(id(e))
        model = {"callable": linear_model, "library": "linear_model", "sympy": "linear_model: x a b -> a * x + b"}.get(model_form, linear_model)
        if not to_model:
            kw["errors_rel_to_model"] = False      # otherwise the documented default (True) is used
        if kind == "xy":
            res = wrapper.xy_fit(model, X, y, report=False, profile=False, save=False, **kw)
        elif kind == "indexed":
            res = wrapper.indexed_fit(idx_model, y, report=False, profile=False, save=False, **kw)
        elif kind == "hist":
            kw.pop("errors_rel_to_model", None)
            res = wrapper.hist_fit(density, HSAMPLE, n_bins=5, bin_range=(0.0, 5.0), report=False, profile=False, save=False, **kw)
        else:
            kw.pop("errors_rel_to_model", None)
            res = wrapper.unbinned_fit(density, HSAMPLE, report=False, profile=False, save=False, **kw)
        fit = res["fit"]
        notes.append("wrapper:%s" % ",".join(sorted(kw)))
    else:
        if kind == "xy":
            model = {"callable": linear_model, "library": "linear_model", "sympy": "linear_model: x a b -> a * x + b"}.get(model_form, linear_model)
            if len(decls) % 2:
                from kafe2 import Fit, XYContainer
                fit = Fit(XYContainer(X, y), model)          # the generic constructor picks the fit class from the container
            else:
                fit = XYFit([X, y], model)
        elif kind == "indexed":
            fit = IndexedFit(y, idx_model)
        elif kind == "hist":
            from kafe2 import HistContainer, HistFit
            fit = HistFit(HistContainer(5, (0.0, 5.0), fill_data=HSAMPLE), density)
        else:
            from kafe2 import UnbinnedFit
            fit = UnbinnedFit(HSAMPLE, density)
    for k, e in enumerate(decls):
        if id(e) in done:
            continue
        form = e["form"]
        if is_src(e):
            if form in ("wrapper", "yaml_short", "yaml_full"):
                form = "scalar"
                notes.append("fallback:scalar")
            direct_add(fit, kind, e["item"], form, d, alt=k)
        elif is_setup(e):
            direct_setup(fit, kind, e["item"])
        else:
            if form in ("wrapper", "yaml"):
                form = "abs" if e["item"]["kind"] == "simple" else "cor"
                notes.append("fallback:constraint")
            direct_constraint(fit, e["item"], form)
    return fit, notes


def observe(fit, points=POINTS, reset=(1.0, 1.0)):
    out = dict()
    costs = []
    fixed = dict(fit._fitter.fixed_parameters)
    start = [float(v) for v in fit.parameter_values]
    names = list(fit.parameter_names)
    for p in points:
        fit.set_parameter_values(**{n: v for n, v in zip(names, p) if n not in fixed})
        costs.append(float(fit.cost_function_value))
    out["costs"] = costs
    out["cons"] = [float(c.cost(np.asarray(points[1]))) for c in fit.parameter_constraints]
    out["fixed"] = {k: float(v) for k, v in fixed.items()}
    out["limits"] = {k: [None if t is None else float(t) for t in v] for k, v in getattr(fit._fitter, "limited_parameters", {}).items()}
    out["start"] = start
    fit.set_parameter_values(**{n: v for n, v in zip(names, reset) if n not in fixed})
    return out


def total_cov(fit, kind):
    return np.asarray(fit.y_total_cov_mat if kind == "xy" and hasattr(fit, "y_total_cov_mat") else fit.total_cov_mat, dtype=float)


def at_limit(fit):
    lim = getattr(fit._fitter, "limited_parameters", {})
    vals = dict(zip(fit.parameter_names, fit.parameter_values))
    return any(min(abs(vals[n] - lo), abs(vals[n] - hi)) < 1e-2 * (hi - lo) for n, (lo, hi) in lim.items())


def compare_sides(kind, d, left, right, total, cons_normal, k, model_form, do_fit, setup_normal=()):
    issues = []
    fl, nl = build_side(kind, d, left, model_form)
    fr, nr = build_side(kind, d, right, "callable")
    tag = "[%s, %s]" % (kind, "+".join(sorted({e["form"] for e in left})))

    def viol(sig, detail):
        issues.append(dict(kind="violation", step=k, kf=None, signature="%s %s" % (sig, tag),
                           detail=dict(declared=[(e["item"], e["form"]) for e in left], notes=nl, data=d, model_form=model_form, **detail)))
    pts, reset = (HPOINTS, HPOINTS[0]) if kind in ("hist", "unbinned") else (POINTS, POINTS[0])
    ol, orr = observe(fl, pts, reset), observe(fr, pts, reset)
    if kind in ("xy", "indexed"):
        cl, cr = total_cov(fl, kind), total_cov(fr, kind)
        ideal = np.asarray(total, dtype=float) / 20000.0
        scale = max(1e-12, float(np.max(np.abs(ideal))))
        if cl.shape != ideal.shape or not np.allclose(cl, ideal, rtol=0, atol=1e-12 * scale + 1e-15):
            viol("SameProblem: total covariance of the form differs from its normal form", dict(expected=ideal.tolist(), actual=cl.tolist()))
            return issues
        if not np.allclose(cr, ideal, rtol=0, atol=1e-12 * scale + 1e-15):
            viol("SameProblem: total covariance of the canonical form differs from the normal form", dict(expected=ideal.tolist(), actual=cr.tolist()))
            return issues
    # set-up of the parameters: both sides and the normal form
    exp_fixed, exp_limits = {}, {}
    for st in setup_normal:
        sv = setup_values(kind, st)
        if st["kind"] == "fix":
            exp_fixed["ab"[sv["p"] - 1]] = float(sv["v"])
        elif st["kind"] == "limit":
            exp_limits["ab"[sv["p"] - 1]] = [float(sv["lo"]), float(sv["hi"])]
    for side, o in (("form", ol), ("canonical form", orr)):
        if o["fixed"] != exp_fixed:
            viol("SameProblem: fixed parameters of the %s differ from the declared ones" % side, dict(expected=exp_fixed, actual=o["fixed"]))
            return issues
        if o["limits"] != exp_limits:
            viol("SameProblem: parameter limits of the %s differ from the declared ones" % side, dict(expected=exp_limits, actual=o["limits"]))
            return issues
    for a, b, p in zip(ol["costs"], orr["costs"], pts):
        if abs(a - b) > 1e-9 * max(1.0, abs(b)):
            viol("SameProblem: cost differs between the two forms", dict(point=p, left=a, right=b))
            return issues
    if len(ol["cons"]) != len(orr["cons"]) or any(abs(a - b) > 1e-9 * max(1.0, abs(b)) for a, b in zip(ol["cons"], orr["cons"])):
        viol("SameProblem: constraint cost differs between the two forms", dict(left=ol["cons"], right=orr["cons"]))
        return issues
    # constraint cost against the normal form
    for c, cn in zip(fl.parameter_constraints, cons_normal):
        v = np.atleast_1d(np.asarray(cn["v"], dtype=float))
        cov = np.asarray(cn["cov"], dtype=float) / 200.0
        r = np.asarray(pts[1])[:len(v)] - v
        exp = float(r @ np.linalg.solve(cov, r))
        got = float(c.cost(np.asarray(pts[1])))
        if abs(got - exp) > 1e-9 * max(1.0, abs(exp)):
            viol("SameProblem: constraint cost differs from its normal form", dict(expected=exp, actual=got))
            return issues
    if do_fit:
        for st in setup_normal:      # a wrapper has already fitted: both sides start from the declared start values (or the defaults)
            pass
        start = next((setup_values(kind, st)["v"] for st in setup_normal if st["kind"] == "start"), list(reset))
        for f in (fl, fr):
            fx = dict(f._fitter.fixed_parameters)
            f.set_parameter_values(**{n: v for n, v in zip(f.parameter_names, start) if n not in fx})
        fl.do_fit()
        fr.do_fit()
        pl, pr = np.array(fl.parameter_values), np.array(fr.parameter_values)
        el, er = np.asarray(fl.parameter_errors), np.asarray(fr.parameter_errors)
        if np.any(np.abs(pl - pr) > 1e-2 * er + 1e-9):      # 0.01 sigma: two minimisations of the same function (one side was fitted by its wrapper before)
            viol("SameProblem: fit results differ between the two forms", dict(left=pl.tolist(), right=pr.tolist(), sigma=er.tolist()))
        elif not at_limit(fl) and not at_limit(fr) and not np.allclose(el, er, rtol=5e-2):      # uncertainties at an active limit are not defined
            viol("SameProblem: parameter uncertainties differ between the two forms", dict(left=el.tolist(), right=er.tolist()))
        elif abs(float(fl.cost_function_value) - float(fr.cost_function_value)) > 1e-6 * max(1.0, abs(float(fr.cost_function_value))):
            viol("SameProblem: minimum cost differs between the two forms", dict(left=float(fl.cost_function_value), right=float(fr.cost_function_value)))
        elif fl.ndf != fr.ndf:
            viol("SameProblem: ndf differs between the two forms", dict(left=fl.ndf, right=fr.ndf))
    return issues


def replay_walk(walk, kind="xy", model_form="callable"):
    warnings.simplefilter("ignore")
    d = walk["first"]["data"]
    left, right = [], []
    last = walk["init"]
    k = -1
    for k, e in enumerate(walk["steps"]):
        a = e["a"]
        last = e
        if a["name"] == "Declare":
            left.append(dict(item=a["src"], form=a["fl"]))
            right.append(dict(item=a["src"], form=a["fr"]))
        elif a["name"] == "Constrain":
            left.append(dict(item=a["c"], form=a["fl"]))
            right.append(dict(item=a["c"], form=a["fr"]))
        elif a["name"] == "SetUp":
            left.append(dict(item=a["st"], form=a["fl"]))
            right.append(dict(item=a["st"], form=a["fr"]))
        elif a["name"] == "Compare":
            iss = compare_sides(kind, d, left, right, e["total"], e["cons"], k, model_form, do_fit=False, setup_normal=e.get("setup", []))
            if iss:
                return iss
    if kind in ("xy", "indexed") and not any(e["item"]["kind"] in ("abs", "rel", "relm") for e in left):
        return []
    if not left:
        return []
    return compare_sides(kind, d, left, right, last["total"], last["cons"], max(k, 0), model_form, do_fit=True, setup_normal=last.get("setup", []))


def replay_xy(w):
    n = len(w["steps"])
    return replay_walk(w, "xy", ["callable", "library", "sympy", "yaml_source"][n % 4])


def replay_indexed(w):
    return replay_walk(w, "indexed", "callable")


def replay_hist(w):
    return replay_walk(w, "hist", "callable")


def replay_unbinned(w):
    return replay_walk(w, "unbinned", "callable")
