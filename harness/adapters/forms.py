"""Adapter: Forms.tla histories -> two real fits declared side by side in different forms (C14).

The left fit receives every abstract source / constraint in the form chosen by the specification, the right fit in the canonical form
(explicit absolute covariance matrix; absolute constraint).  Observables compared pairwise AND with the specification's normal form:
total covariance matrix, cost at common parameter points, constraint cost, do_fit() results."""
import os
import tempfile
import warnings

import numpy as np
import yaml

X = [1.0, 2.0, 3.0]
POINTS = [(1.0, 1.0), (0.4, -0.7), (-1.3, 2.2)]
MODEL_SRC = "def linear_model(x, a=1.0, b=1.0):\n    return a * x + b\n"
IDX_SRC = "def linear_model(a=1.0, b=1.0):\n    return a * np.arange(1.0, 4.0) + b\n"


def linear_model(x, a=1.0, b=1.0):
    return a * x + b


def idx_model(a=1.0, b=1.0):
    return a * np.arange(1.0, 4.0) + b


idx_model.__name__ = "linear_model"


def src_numbers(src, d):
    n = len(d)
    rho = src["h"] / 2.0
    cor = np.full((n, n), rho) + np.eye(n) * (1.0 - rho)
    if src["kind"] == "abs":
        sig = np.full(n, src["s"] / 10.0)
        rel = None
    elif src["kind"] == "relm":
        rel = src["s"] / 100.0
        sig = rel * np.array([2.0, 3.0, 4.0])           # model at the default parameters
    else:
        rel = src["s"] / 100.0
        sig = rel * np.asarray(d, dtype=float)          # signed
    return rho, cor, sig, rel


def direct_add(fit, kind, src, form, d, alt=0):
    """add the source through the Python API in the given form"""
    pre = ("y",) if kind == "xy" else ()
    n = len(d)
    rho, cor, sig, rel = src_numbers(src, d)
    relative = src["kind"] in ("rel", "relm")
    ref = dict(reference="model") if src["kind"] == "relm" else {}
    if form == "scalar":
        fit.add_error(*pre, err_val=(rel if relative else float(sig[0])), correlation=rho, relative=relative, **ref)
    elif form == "vector":
        fit.add_error(*pre, err_val=([rel] * n if relative else [float(v) for v in sig]), correlation=rho, relative=relative, **ref)
    elif form == "cov":
        m = cor * rel ** 2 if relative else cor * np.outer(sig, sig)
        fit.add_matrix_error(*pre, err_matrix=m, matrix_type="cov", relative=relative)
    elif form == "cor":
        ev = (rel if relative else float(sig[0]))
        if alt % 2:
            ev = [ev] * n
        fit.add_matrix_error(*pre, err_matrix=cor, matrix_type="cor", err_val=ev, relative=relative)
    elif form == "abs_vector":
        fit.add_error(*pre, err_val=[abs(float(v)) for v in sig], correlation=rho)
    elif form == "abs_cov":
        fit.add_matrix_error(*pre, err_matrix=cor * np.outer(sig, sig), matrix_type="cov")
    else:
        raise RuntimeError("adapter: form %r is not a direct form" % form)


def yaml_source_entry(src, form, d):
    """the entry of the y_errors / errors list"""
    n = len(d)
    rho, cor, sig, rel = src_numbers(src, d)
    relative = src["kind"] == "rel"
    if form == "yaml_short":
        if relative:
            pct = src["s"]
            return ["%d%%" % pct] * n
        v = float(sig[0])
        return [int(v) if v == int(v) else v] * n
    if src["h"] == 1:       # a matrix source, explicit
        return dict(type="matrix", matrix_type="cor", matrix=cor.tolist(), error_value=(rel if relative else float(sig[0])), relative=relative)
    return dict(type="simple", error_value=(rel if relative else float(sig[0])), relative=relative, correlation_coefficient=rho)


def direct_constraint(fit, c, form):
    names = ["a", "b"]
    if c["kind"] == "simple":
        v, u = float(c["v"]), c["u"] / 10.0
        if form == "abs":
            fit.add_parameter_constraint("a", v, u)
        elif form == "rel":
            fit.add_parameter_constraint("a", v, u / abs(v), relative=True)
        else:
            raise RuntimeError("adapter: constraint form %r" % form)
        return
    v = np.array([float(t) for t in c["v"]])
    u = np.array([t / 10.0 for t in c["u"]])
    rho = c["h"] / 2.0
    cor = np.array([[1.0, rho], [rho, 1.0]])
    cov = cor * np.outer(u, u)
    if form == "cov":
        fit.add_matrix_parameter_constraint(names, v, cov)
    elif form == "cor":
        fit.add_matrix_parameter_constraint(names, v, cor, matrix_type="cor", uncertainties=u)
    elif form == "rel_cov":
        fit.add_matrix_parameter_constraint(names, v, cov / np.outer(v, v), relative=True)
    elif form == "rel_cor":
        # relative uncertainties u/|v|; the correlation of the RELATIVE deviations changes sign with v_i v_j
        fit.add_matrix_parameter_constraint(names, v, cor * np.sign(np.outer(v, v)), matrix_type="cor", uncertainties=u / np.abs(v), relative=True)
    else:
        raise RuntimeError("adapter: constraint form %r" % form)


def yaml_constraint(c):
    if c["kind"] == "simple":
        return "dict", {"a": dict(value=float(c["v"]), uncertainty=c["u"] / 10.0)}
    u = [t / 10.0 for t in c["u"]]
    rho = c["h"] / 2.0
    return "list", dict(type="matrix", names=["a", "b"], values=[float(t) for t in c["v"]], matrix=[[1.0, rho], [rho, 1.0]], matrix_type="cor",
                        uncertainties=u)


def build_side(kind, d, decls, model_form="callable"):
    """decls: list of dict(item, form).  Returns (fit, notes)."""
    from kafe2 import IndexedFit, XYFit
    from kafe2.fit._base.fit import FitBase
    from kafe2.fit.util import wrapper
    notes = []
    y = [float(v) for v in d]
    is_src = lambda e: e["item"]["kind"] in ("abs", "rel", "relm")
    yaml_items = [e for e in decls if e["form"] in ("yaml_short", "yaml_full", "yaml")]
    wrap_items = [e for e in decls if e["form"] == "wrapper"]
    done = set()
    if yaml_items or model_form in ("yaml_source",):
        short = any(e["form"] in ("yaml_short", "yaml") for e in yaml_items) or not yaml_items
        errs = [yaml_source_entry(e["item"], e["form"], d) for e in yaml_items if is_src(e)]
        if len(errs) == 1 and isinstance(errs[0], list) and short:
            v0 = errs[0]
            errs = v0[0] if all(t == v0[0] for t in v0) and len(decls) % 2 else v0      # scalar shorthand or the list
        cons = [yaml_constraint(e["item"]) for e in yaml_items if not is_src(e)]
        doc = dict(type=kind)
        model = MODEL_SRC if kind == "xy" else IDX_SRC
        if short:      # top-level keys
            if kind == "xy":
                doc.update(x_data=X, y_data=y)
                if errs != []:
                    doc["y_errors"] = errs
            else:
                doc.update(data=y)
                if errs != []:
                    doc["errors"] = errs
            doc["model_function"] = model
        else:
            ds = dict(type=kind)
            if kind == "xy":
                ds.update(x_data=X, y_data=y)
                if errs:
                    ds["y_errors"] = errs
                pm = dict(type="xy", x_data=X, model_function=dict(python_code=model))
            else:
                ds.update(data=y)
                if errs:
                    ds["errors"] = errs
                pm = dict(type="indexed", shape_like=y, model_function=dict(python_code=model))
            doc.update(dataset=ds, parametric_model=pm)
        if cons:
            if all(k == "dict" for k, _ in cons):
                merged = {}
                for _, c in cons:
                    merged.update(c)
                doc["parameter_constraints"] = merged
            else:
                doc["parameter_constraints"] = [c if k == "list" else dict(type="simple", name="a", **c["a"]) for k, c in cons]
        fd, path = tempfile.mkstemp(suffix=".yml", prefix="c14-")
        os.close(fd)
        try:
            with open(path, "w") as f:
                yaml.safe_dump(doc, f)
            fit = FitBase.from_file(path)
        finally:
            os.remove(path)
        done.update(id(e) for e in yaml_items)
        notes.append("yaml:%s" % ("short" if short else "full"))
    elif wrap_items:
        kw = {}
        pre = "y_" if kind == "xy" else ""
        to_model = any(e["item"]["kind"] == "relm" for e in wrap_items)      # errors_rel_to_model is one switch per call
        for e in wrap_items:
            if is_src(e):
                src = e["item"]
                rho, cor, sig, rel = src_numbers(src, d)
                key = pre + "error" + ("_cor" if src["h"] == 2 else "") + ("_rel" if src["kind"] in ("rel", "relm") else "")
                if key in kw or (src["kind"] == "rel" and to_model):
                    continue          # the keyword is taken: this item is added directly afterwards
                kw[key] = rel if src["kind"] in ("rel", "relm") else float(sig[0])
                done.add(id(e))
            else:
                c = e["item"]
                if "constraints" in kw:
                    continue
                kw["constraints"] = ("a", float(c["v"]), c["u"] / 10.0)
                done.add(id(e))
        model = {"callable": linear_model, "library": "linear_model", "sympy": "linear_model: x a b -> a * x + b"}.get(model_form, linear_model)
        if not to_model:
            kw["errors_rel_to_model"] = False      # otherwise the documented default (True) is used
        if kind == "xy":
            res = wrapper.xy_fit(model, X, y, report=False, profile=False, save=False, **kw)
        else:
            res = wrapper.indexed_fit(idx_model, y, report=False, profile=False, save=False, **kw)
        fit = res["fit"]
        notes.append("wrapper:%s" % ",".join(sorted(kw)))
    else:
        if kind == "xy":
            model = {"callable": linear_model, "library": "linear_model", "sympy": "linear_model: x a b -> a * x + b"}.get(model_form, linear_model)
            fit = XYFit([X, y], model)
        else:
            fit = IndexedFit(y, idx_model)
    for k, e in enumerate(decls):
        if id(e) in done:
            continue
        form = e["form"]
        if is_src(e):
            if form in ("wrapper", "yaml_short", "yaml_full"):
                form = "scalar"
                notes.append("fallback:scalar")
            direct_add(fit, kind, e["item"], form, d, alt=k)
        else:
            if form in ("wrapper", "yaml"):
                form = "abs" if e["item"]["kind"] == "simple" else "cor"
                notes.append("fallback:constraint")
            direct_constraint(fit, e["item"], form)
    return fit, notes


def observe(fit, fitted=False):
    out = dict(cov=np.asarray(fit.total_cov_mat, dtype=float) if hasattr(fit, "total_cov_mat") else None)
    if out["cov"] is None:
        out["cov"] = np.asarray(fit.total_cov_mat, dtype=float)
    costs = []
    for p in POINTS:
        fit.set_all_parameter_values(list(p))
        costs.append(float(fit.cost_function_value))
    out["costs"] = costs
    out["cons"] = [float(c.cost(np.asarray(POINTS[1]))) for c in fit.parameter_constraints]
    fit.set_all_parameter_values([1.0, 1.0])
    return out


def total_cov(fit, kind):
    return np.asarray(fit.y_total_cov_mat if kind == "xy" and hasattr(fit, "y_total_cov_mat") else fit.total_cov_mat, dtype=float)


def compare_sides(kind, d, left, right, total, cons_normal, k, model_form, do_fit):
    issues = []
    fl, nl = build_side(kind, d, left, model_form)
    fr, nr = build_side(kind, d, right, "callable")
    tag = "[%s, %s]" % (kind, "+".join(sorted({e["form"] for e in left})))

    def viol(sig, detail):
        issues.append(dict(kind="violation", step=k, kf=None, signature="%s %s" % (sig, tag),
                           detail=dict(left=[(e["item"], e["form"]) for e in left], notes=nl, data=d, model_form=model_form, **detail)))
    ol, orr = observe(fl), observe(fr)
    cl, cr = total_cov(fl, kind), total_cov(fr, kind)
    ideal = np.asarray(total, dtype=float) / 20000.0
    scale = max(1e-12, float(np.max(np.abs(ideal))))
    if cl.shape != ideal.shape or not np.allclose(cl, ideal, rtol=0, atol=1e-12 * scale + 1e-15):
        viol("SameProblem: total covariance of the form differs from its normal form", dict(expected=ideal.tolist(), actual=cl.tolist()))
        return issues
    if not np.allclose(cr, ideal, rtol=0, atol=1e-12 * scale + 1e-15):
        viol("SameProblem: total covariance of the canonical form differs from the normal form", dict(expected=ideal.tolist(), actual=cr.tolist()))
        return issues
    for a, b, p in zip(ol["costs"], orr["costs"], POINTS):
        if abs(a - b) > 1e-9 * max(1.0, abs(b)):
            viol("SameProblem: cost differs between the two forms", dict(point=p, left=a, right=b))
            return issues
    if len(ol["cons"]) != len(orr["cons"]) or any(abs(a - b) > 1e-9 * max(1.0, abs(b)) for a, b in zip(ol["cons"], orr["cons"])):
        viol("SameProblem: constraint cost differs between the two forms", dict(left=ol["cons"], right=orr["cons"]))
        return issues
    # constraint cost against the normal form
    for c, cn in zip(fl.parameter_constraints, cons_normal):
        v = np.atleast_1d(np.asarray(cn["v"], dtype=float))
        cov = np.asarray(cn["cov"], dtype=float) / 200.0
        r = np.asarray(POINTS[1])[:len(v)] - v
        exp = float(r @ np.linalg.solve(cov, r))
        got = float(c.cost(np.asarray(POINTS[1])))
        if abs(got - exp) > 1e-9 * max(1.0, abs(exp)):
            viol("SameProblem: constraint cost differs from its normal form", dict(expected=exp, actual=got))
            return issues
    if do_fit:
        fl.do_fit()
        fr.do_fit()
        pl, pr = np.asarray(fl.parameter_values), np.asarray(fr.parameter_values)
        el, er = np.asarray(fl.parameter_errors), np.asarray(fr.parameter_errors)
        if np.any(np.abs(pl - pr) > 1e-3 * er + 1e-9):
            viol("SameProblem: fit results differ between the two forms", dict(left=pl.tolist(), right=pr.tolist(), sigma=er.tolist()))
        elif not np.allclose(el, er, rtol=1e-2):
            viol("SameProblem: parameter uncertainties differ between the two forms", dict(left=el.tolist(), right=er.tolist()))
        elif abs(float(fl.cost_function_value) - float(fr.cost_function_value)) > 1e-6 * max(1.0, abs(float(fr.cost_function_value))):
            viol("SameProblem: minimum cost differs between the two forms", dict(left=float(fl.cost_function_value), right=float(fr.cost_function_value)))
        elif fl.ndf != fr.ndf:
            viol("SameProblem: ndf differs between the two forms", dict(left=fl.ndf, right=fr.ndf))
    return issues


def replay_walk(walk, kind="xy", model_form="callable"):
    warnings.simplefilter("ignore")
    d = walk["first"]["data"]
    left, right = [], []
    last = walk["init"]
    k = -1
    for k, e in enumerate(walk["steps"]):
        a = e["a"]
        last = e
        if a["name"] == "Declare":
            left.append(dict(item=a["src"], form=a["fl"]))
            right.append(dict(item=a["src"], form=a["fr"]))
        elif a["name"] == "Constrain":
            left.append(dict(item=a["c"], form=a["fl"]))
            right.append(dict(item=a["c"], form=a["fr"]))
        elif a["name"] == "Compare":
            iss = compare_sides(kind, d, left, right, e["total"], e["cons"], k, model_form, do_fit=False)
            if iss:
                return iss
    if not any(e["item"]["kind"] in ("abs", "rel", "relm") for e in left):
        return []
    return compare_sides(kind, d, left, right, last["total"], last["cons"], max(k, 0), model_form, do_fit=True)


def replay_xy(w):
    n = len(w["steps"])
    return replay_walk(w, "xy", ["callable", "library", "sympy", "yaml_source"][n % 4])


def replay_indexed(w):
    return replay_walk(w, "indexed", "callable")
