"""Adapter: PlotView.tla histories -> real fits rendered on the Agg backend; artists compared with the fit's numbers (C18).

Oracle: the public observables of the fit object at the moment of drawing (data, total uncertainties, model, parameter values,
parameter covariance, goodness of fit) combined by the documented formulas -- computed here independently of the plot adapters:
the model curve from the model function itself, the band from a numerical Jacobian and the parameter covariance matrix, the
Poisson term as sqrt(counts), ratio / residual / pull from data, model and total uncertainty."""
import os
import re
import warnings

os.environ.setdefault("MPLBACKEND", "Agg")

import numpy as np

from .. import fitlib as fl
from .format import delatex
from .reportview import near

POISSON = ("nll", "nllr", "gauss_approximation")
TOL = dict(rtol=1e-9, atol=1e-12)


def model_callable(ftype):
    return {"xy": lambda x, a, b: a * np.asarray(x, dtype=float) + b, "xyq": fl.quad_model, "hist": fl.normal_density, "unbinned": fl.normal_density}.get(ftype)


def make(ftype, cost, ds="d0"):
    kw = {}
    if cost not in (None, "unbinned"):
        kw["cost"] = {"gauss_approximation": "gauss-approximation"}.get(cost, cost)
    if ftype == "indexed" and cost in POISSON:
        from kafe2 import IndexedFit
        data = [3.0, 5.0, 8.0, 9.0, 12.0] if ds == "d0" else [2.0, 6.0, 7.0, 11.0, 12.0]

        def lin_counts(a=2.0, b=1.0):
            return a * np.arange(1.0, 6.0) + b
        return IndexedFit(data, lin_counts, cost_function=kw["cost"])
    if ftype == "hist":
        # entries below and above the bin range: they count as entries (scaling of the model and of the density curve)
        from kafe2 import HistContainer, HistFit
        sample = list(fl.H0 if ds == "d0" else fl.H1) + [-1.0, 6.5, 7.0]
        fit = HistFit(HistContainer(n_bins=5, bin_range=(0.0, 5.0), fill_data=sample), fl.normal_density, cost_function=kw.get("cost", "nll"))
    else:
        fit = fl.make_fit(ftype, ds=ds, **kw)
    if ftype in ("xy", "xyq", "indexed") and cost == "chi2":
        fl.add_source(fit, ftype, "ey1")
        if ftype == "xy":
            fl.add_source(fit, ftype, "ex1")
        fl.add_source(fit, ftype, "em1")        # an uncertainty of the model: total != data uncertainty
    if ftype == "hist" and cost == "chi2":
        fit.add_error(0.6, name="own")          # a chi2 histogram fit needs an explicit uncertainty
    return fit


class Sys:
    def __init__(self, first):
        self.ftype, self.cost, self.nfits = first["fit"], first["cost"], first["nfits"]
        self.joint = bool(first.get("joint", False))
        self.fits = [make(self.ftype, self.cost, "d0")]
        self.multi = None
        if self.nfits == 2:
            self.fits.append(make(self.ftype, self.cost, "d1"))
            if self.joint:
                from kafe2 import MultiFit
                self.multi = MultiFit(self.fits)
            else:
                self.fits[1].do_fit()
        self.plot = None
        self.n = 0

    def step(self, a):
        from kafe2 import Plot
        f = self.fits[0]
        if a["name"] == "Mutate":
            self.n += 1
            if a["m"] == "SetPar":
                names = list(f.parameter_names)
                f.set_parameter_values(**{names[0]: float(f.parameter_values[0]) * (1.1 + 0.05 * self.n) + 0.1})
            elif a["m"] == "AddError":
                if self.ftype in ("xy", "xyq"):
                    f.add_error("y", 0.1 + 0.05 * self.n, correlation=0.3)
                else:
                    f.add_error(0.3 + 0.05 * self.n, correlation=0.3)
            elif a["m"] == "SetData":
                ds = "d1" if self.n % 2 else "d0"
                if self.ftype == "indexed" and self.cost in POISSON:
                    f.data = [2.0, 6.0, 7.0, 11.0, 12.0] if self.n % 2 else [3.0, 5.0, 8.0, 9.0, 12.0]
                else:
                    if self.ftype == "hist":
                        from kafe2 import HistContainer
                        f.data = HistContainer(n_bins=5, bin_range=(0.0, 5.0), fill_data=list(fl.H1 if ds == "d1" else fl.H0) + [-2.0, 5.5])
                    else:
                        f.data = fl.make_data(self.ftype, ds)
                    if self.ftype in ("xy", "xyq", "indexed") and self.cost == "chi2":      # uncertainties declared on the data go with the data
                        fl.add_source(f, self.ftype, "ey1")
                        if self.ftype == "xy":
                            fl.add_source(f, self.ftype, "ex1")
                    if self.ftype == "hist" and self.cost == "chi2":
                        f.add_error(0.6, name="own")
        elif a["name"] == "DoFit":
            (self.multi or f).do_fit()
        elif a["name"] == "MakePlot":
            self.plot = Plot(self.multi if self.joint else (self.fits if self.nfits == 2 else self.fits[0]), separate_figures=False)
        elif a["name"] != "Draw":
            raise RuntimeError("adapter: unknown action %r" % a["name"])


def total_yerr(fit, ftype, cost, ref="data"):
    base = np.asarray(fit.y_total_error if ftype in ("xy", "xyq") else fit.total_error, dtype=float)
    y = np.asarray(fit.y_data if ftype in ("xy", "xyq") else fit.data, dtype=float)
    pois = np.sqrt(y) if cost in POISSON else np.zeros_like(y)
    return np.sqrt(base ** 2 + pois ** 2)


def errorbar_parts(a):
    """ErrorbarContainer -> (xy of the markers, x half-lengths or None, (y below, y above) or None)"""
    xy = np.asarray(a.lines[0].get_xydata(), dtype=float) if a.lines[0] is not None else None
    xbar = ybar = None
    for lc in a.lines[2]:
        segs = np.asarray(lc.get_segments(), dtype=float)
        if segs.size == 0:
            continue
        if np.allclose(segs[:, 0, 1], segs[:, 1, 1]) and not np.allclose(segs[:, 0, 0], segs[:, 1, 0]):
            xbar = segs
        elif np.allclose(segs[:, 0, 0], segs[:, 1, 0]):
            if ybar is None and (xbar is not None or not np.allclose(segs[:, 0, 1], segs[:, 1, 1])):
                ybar = segs
            elif xbar is None and np.allclose(segs[:, 0, 1], segs[:, 1, 1]):
                # zero-length bars: cannot tell x from y; first collection is x when both exist
                if a.has_xerr and xbar is None:
                    xbar = segs
                else:
                    ybar = segs
    return xy, xbar, ybar


def band_envelope(poly):
    v = np.asarray(poly.get_paths()[0].vertices, dtype=float)
    xs = np.unique(v[:, 0])
    lo = np.array([v[v[:, 0] == x, 1].min() for x in xs])
    hi = np.array([v[v[:, 0] == x, 1].max() for x in xs])
    return xs, lo, hi


def jac_band(f, x, pv, cov):
    pv = np.asarray(pv, dtype=float)
    J = []
    for j in range(len(pv)):
        h = 1e-6 * max(1.0, abs(pv[j]))
        up, dn = pv.copy(), pv.copy()
        up[j] += h
        dn[j] -= h
        J.append((f(x, *up) - f(x, *dn)) / (2 * h))
    J = np.array(J)
    return np.sqrt(np.einsum("ik,ij,jk->k", J, np.asarray(cov, dtype=float), J))


class Snap:
    """the numbers a fit holds at one moment (everything the artists are compared with)"""

    def __init__(self, fit, ftype, cost):
        is_xy = ftype in ("xy", "xyq")
        self.parameter_names = list(fit.parameter_names)
        self.parameter_values = [float(v) for v in fit.parameter_values]
        pe = fit.parameter_errors
        self.parameter_errors = None if pe is None else [float(v) for v in pe]
        cov = fit.parameter_cov_mat
        self.parameter_cov_mat = None if cov is None else np.array(cov, dtype=float)
        self.goodness_of_fit = None if fit.goodness_of_fit is None else float(fit.goodness_of_fit)
        self.ndf = fit.ndf
        self.chi2_probability = None if fit.chi2_probability is None else float(fit.chi2_probability)
        self.dx = np.array(fit.x_data if is_xy else (fit.data_container.bin_centers if ftype == "hist" else
                                                     (fit.data if ftype == "unbinned" else np.arange(fit.data_size))), dtype=float)
        self.dy = None if ftype == "unbinned" else np.array(fit.y_data if is_xy else fit.data, dtype=float)
        self.my = None if ftype == "unbinned" else np.array(fit.y_model if is_xy else fit.model, dtype=float)
        self.tot = None if ftype == "unbinned" else total_yerr(fit, ftype, cost)
        self.ex = np.array(fit.x_total_error, dtype=float) if is_xy else (0.5 * np.array(fit.data_container.bin_widths, dtype=float) if ftype == "hist" else None)
        if ftype == "hist":
            hc = fit.data_container
            self.density_factor = (float(hc.n_entries) if fit.density else 1.0) * float(hc.high - hc.low) / hc.size


def multi_snap(m):
    f = lambda v: None if v is None else float(v)
    return dict(gof=f(m.goodness_of_fit), ndf=int(m.ndf), chi2p=f(m.chi2_probability))


def check_legend(fig, fits, multi=None):
    texts = [t.get_text() for t in fig.legends[0].get_texts()] if fig.legends else []
    infos = [t for t in texts if "\n" in t]
    out = []
    if len(infos) < len(fits):
        return [("legend: no fit info block for every fit", texts, len(fits))]
    for fit, info in zip(fits, infos):
        lines = [l.strip() for l in info.split("\n")[1:] if l.strip()]
        names = list(fit.parameter_names)
        pv = fit.parameter_values
        pe = fit.parameter_errors
        seen = 0
        for l in lines:
            m = re.fullmatch(r"\$\{?(.+?)\}?\$ = \$(.*)\$(?: \(fixed\))?", l)
            if m and seen < len(names):
                body = delatex(m.group(2))
                j = seen
                seen += 1
                if "\\pm" in body:
                    a, b = [t.strip() for t in body.split("\\pm")]
                    if not near(a, pv[j]):
                        out.append(("legend: value of parameter %d" % j, l, pv[j]))
                    if not near(b, float(pe[j])):
                        out.append(("legend: uncertainty of parameter %d" % j, l, float(pe[j])))
                elif "^" in body:      # asymmetric: {v}^{+u}_{-d}  (braces already removed)
                    m2 = re.fullmatch(r"(.*)\^\+(.*)_-(.*)", body)
                    if m2 and not near(m2.group(1), pv[j]):
                        out.append(("legend: value of parameter %d" % j, l, pv[j]))
                else:
                    if not near(body.replace("(fixed)", "").strip(), pv[j]):
                        out.append(("legend: value of parameter %d" % j, l, pv[j]))
                continue
            m = re.search(r"/ \{\\rm ndf\} = \$?([^$ ]+) / (\d+) = ([^$ ]+)\$", l) or re.search(r"/ \{\\rm ndf\} = ([^$ ]+) / (\d+) = ([^$ ]+)", l)
            if "global" in l:
                if multi is None:
                    out.append(("legend: a 'global' line without a multi-fit", l, None))
                elif m and multi["gof"] is not None:
                    if not near(delatex(m.group(1)), multi["gof"]) or int(m.group(2)) != multi["ndf"] or not near(delatex(m.group(3).rstrip("$")), multi["gof"] / multi["ndf"]):
                        out.append(("legend: global goodness of fit / ndf", l, (multi["gof"], multi["ndf"])))
                else:
                    m3 = re.search(r"probability\} = \$\$([^$]+)\$", l)
                    if m3 and multi["chi2p"] is not None and not near(delatex(m3.group(1)), multi["chi2p"]):
                        out.append(("legend: global chi2 probability", l, multi["chi2p"]))
                continue
            if m:
                gof = fit.goodness_of_fit
                if gof is not None:
                    if not near(delatex(m.group(1)), float(gof)):
                        out.append(("legend: goodness of fit", l, float(gof)))
                    if int(m.group(2)) != fit.ndf:
                        out.append(("legend: ndf", l, fit.ndf))
                    if not near(delatex(m.group(3).rstrip("$")), float(gof) / fit.ndf):
                        out.append(("legend: gof / ndf", l, float(gof) / fit.ndf))
                continue
            m = re.search(r"probability =\}\$\$([^$]+)\$", l)
            if m and fit.chi2_probability is not None and not near(delatex(m.group(1)), float(fit.chi2_probability)):
                out.append(("legend: chi2 probability", l, float(fit.chi2_probability)))
        if seen != len(names):
            out.append(("legend: not every parameter is listed", info, names))
    return out


def check_draw(sysm, a):
    """returns list of (what, drawn, expected)"""
    import matplotlib.pyplot as plt
    ftype, cost = sysm.ftype, sysm.cost
    p = sysm.plot
    bad = []
    if a["xlog"]:
        p.x_scale = "log"
    if a["ylog"]:
        p.y_scale = "log"
    if a["separate"]:
        from kafe2 import Plot
        p = Plot(sysm.multi if sysm.joint else sysm.fits, separate_figures=True)
    kw = {}
    if a["panel"] != "none":
        kw[a["panel"]] = True
    if a["asym"]:
        # compute the asymmetric uncertainties first: inside plot() the profiling would move the optimum by a rounding-size step between
        # drawing the curve and writing the legend (that wobble is C08's subject, not a wiring error)
        for f in sysm.fits:
            _ = f.asymmetric_parameter_errors
    before = [Snap(f, ftype, cost) for f in sysm.fits]
    mbefore = multi_snap(sysm.multi) if sysm.joint else None
    try:
        res = p.plot(asymmetric_parameter_errors=a["asym"], **kw)
    except Exception as exc:
        import traceback
        plt.close("all")
        return [("Plot.plot raised %s" % type(exc).__name__, traceback.format_exc()[-700:], None)]
    after = [Snap(f, ftype, cost) for f in sysm.fits]
    msnap = [None, mbefore]
    if sysm.joint:
        msnap[0] = multi_snap(sysm.multi)
    try:
      # computing asymmetric uncertainties inside plot() may move the optimum by a rounding-size step: the drawn numbers must be those the
      # fit held immediately before OR immediately after the call
      first_bad = None
      for snaps in (after, before):
        bad = []
        for fi, fit in enumerate(snaps):
            figres = res[fi] if a["separate"] else res[0]
            is_xy = ftype in ("xy", "xyq")
            dx, dy, my, tot, pv = fit.dx, fit.dy, fit.my, fit.tot, fit.parameter_values
            for axk, axd in figres.items():
                for pl in axd["plots"]:
                    if pl["fit_index"] != fi:
                        continue
                    art, typ = pl["artist"], pl["type"]
                    if art is None:
                        continue
                    if typ == "data" and ftype == "unbinned":
                        segs = np.asarray(art.get_segments(), dtype=float)
                        if not np.allclose(np.sort(segs[:, 0, 0]), np.sort(dx), **TOL):
                            bad.append(("data marks", segs[:, 0, 0].tolist(), dx.tolist()))
                    elif typ == "data":
                        if not hasattr(art, "lines"):      # plain markers (no uncertainties at all)
                            xy = np.asarray(art[0].get_xydata(), dtype=float)
                            if not np.allclose(xy[:, 0], dx, **TOL) or not np.allclose(xy[:, 1], dy, **TOL):
                                bad.append(("data markers", xy.tolist(), [dx.tolist(), dy.tolist()]))
                            if np.any(tot > 0):
                                bad.append(("data drawn without error bars although the uncertainty is not zero", None, tot.tolist()))
                            continue
                        xy, xbar, ybar = errorbar_parts(art)
                        if not np.allclose(xy[:, 0], dx, **TOL) or not np.allclose(xy[:, 1], dy, **TOL):
                            bad.append(("data markers", xy.tolist(), [dx.tolist(), dy.tolist()]))
                        if np.any(tot > 0):
                            if ybar is None:
                                bad.append(("y error bars missing", None, tot.tolist()))
                            elif not (np.allclose(ybar[:, 0, 1], dy - tot, **TOL) and np.allclose(ybar[:, 1, 1], dy + tot, **TOL)):
                                bad.append(("y error bars", (ybar[:, 1, 1] - ybar[:, 0, 1]).tolist(), (2 * tot).tolist()))
                        ex = fit.ex
                        if ex is not None and np.any(ex > 0):
                            if xbar is None:
                                bad.append(("x error bars missing", None, ex.tolist()))
                            elif not (np.allclose(xbar[:, 0, 0], dx - ex, **TOL) and np.allclose(xbar[:, 1, 0], dx + ex, **TOL)):
                                bad.append(("x error bars", (xbar[:, 1, 0] - xbar[:, 0, 0]).tolist(), (2 * ex).tolist()))
                    elif typ == "model_line":
                        xy = np.asarray(art[0].get_xydata(), dtype=float)
                        f = model_callable(ftype)
                        exp = f(xy[:, 0], *pv)
                        if not np.allclose(xy[:, 1], exp, rtol=1e-9, atol=1e-12):
                            bad.append(("model curve", xy[:3, 1].tolist(), np.asarray(exp)[:3].tolist()))
                        xr = (min(dx), max(dx))
                        if xy[0, 0] > xr[0] + 1e-9 and sysm.plot is p and False:
                            bad.append(("model curve does not span the data range", xy[0, 0], xr))
                    elif typ == "model_error_band":
                        xs, lo, hi = band_envelope(art)
                        f = model_callable(ftype)
                        mid = f(xs, *pv)
                        band = jac_band(f, xs, pv, fit.parameter_cov_mat)
                        if not (np.allclose(hi - mid, band, rtol=2e-4, atol=1e-9) and np.allclose(mid - lo, band, rtol=2e-4, atol=1e-9)):
                            bad.append(("uncertainty band", (hi - mid)[:3].tolist(), band[:3].tolist()))
                    elif typ == "model" and ftype == "hist":
                        h = np.array([r.get_height() for r in art.patches])
                        c = np.array([r.get_x() + 0.5 * r.get_width() for r in art.patches])
                        if not np.allclose(h, my, **TOL) or not np.allclose(c, dx, **TOL):
                            bad.append(("model bars", h.tolist(), my.tolist()))
                    elif typ == "model" and ftype == "indexed":
                        # step_fill_between draws one horizontal segment per point and returns the first: read them from the axes
                        ax = (p.axes[-len(sysm.fits):][fi] if a["separate"] else p.axes[-1])[axk]
                        segs = [np.asarray(l.get_xydata(), dtype=float) for l in ax.lines if len(l.get_xdata()) == 2 and l.get_label() == art.get_label()
                                or (len(l.get_xdata()) == 2 and l.get_color() == art.get_color() and l.get_linestyle() == art.get_linestyle())]
                        segs = [sg for sg in segs if sg[0, 1] == sg[1, 1] and abs((sg[1, 0] - sg[0, 0]) - 1.0) < 1e-9]
                        got = sorted((round(float(0.5 * (sg[0, 0] + sg[1, 0])), 9), float(sg[0, 1])) for sg in segs)
                        exp = sorted((float(i), float(v)) for i, v in zip(dx, my))
                        if len(sysm.fits) == 1 and (len(got) != len(exp) or not np.allclose(np.array(got), np.array(exp), **TOL)):
                            bad.append(("model steps", got, exp))
                        elif len(sysm.fits) > 1 and not all(any(abs(g[0] - e[0]) < 1e-9 and abs(g[1] - e[1]) <= 1e-9 * max(1.0, abs(e[1])) for g in got) for e in exp):
                            bad.append(("model steps", got, exp))
                    elif typ == "model_density":
                        xy = np.asarray(art[0].get_xydata(), dtype=float)
                        exp = fit.density_factor * fl.normal_density(xy[:, 0], *pv)
                        if not np.allclose(xy[:, 1], exp, rtol=1e-9, atol=1e-12):
                            bad.append(("model density curve", xy[:3, 1].tolist(), exp[:3].tolist()))
                    elif typ in ("ratio", "residual", "pull"):
                        xy, xbar, ybar = errorbar_parts(art)
                        exp_y = {"ratio": dy / my, "residual": dy - my, "pull": (dy - my) / tot}[typ]
                        if not np.allclose(xy[:, 1], exp_y, **TOL) or not np.allclose(xy[:, 0], dx, **TOL):
                            bad.append(("%s panel points" % typ, xy[:, 1].tolist(), exp_y.tolist()))
                        if typ != "pull" and np.any(tot > 0):
                            e = tot / my if typ == "ratio" else tot
                            if ybar is None or not (np.allclose(ybar[:, 0, 1], exp_y - np.abs(e), **TOL) and np.allclose(ybar[:, 1, 1], exp_y + np.abs(e), **TOL)):
                                bad.append(("%s panel error bars" % typ, None if ybar is None else (ybar[:, 1, 1] - ybar[:, 0, 1]).tolist(), (2 * e).tolist()))
                    elif typ in ("ratio_error_band", "residual_error_band"):
                        xs, lo, hi = band_envelope(art)
                        f = model_callable(ftype)
                        mid = f(xs, *pv)
                        band = jac_band(f, xs, pv, fit.parameter_cov_mat)
                        exp = band / np.abs(mid) if typ == "ratio_error_band" else band
                        centre = 1.0 if typ == "ratio_error_band" else 0.0
                        if not (np.allclose(hi - centre, exp, rtol=2e-4, atol=1e-9) and np.allclose(centre - lo, exp, rtol=2e-4, atol=1e-9)):
                            bad.append(("%s" % typ.replace("_", " "), (hi - centre)[:3].tolist(), exp[:3].tolist()))
            fig = p.figures[-len(sysm.fits):][fi] if a["separate"] else p.figures[-1]
            fits_here = [fit] if a["separate"] else (snaps if fi == 0 else [])
            if fits_here:
                bad += check_legend(fig, fits_here, msnap[0 if snaps is after else 1])
        if not bad:
            break
        if first_bad is None:
            first_bad = bad
      if bad:
        bad = first_bad      # both comparisons fail: report the one against the numbers held after the call
    finally:
        plt.close("all")
        if a["xlog"]:
            sysm.plot.x_scale = "linear"
        if a["ylog"]:
            sysm.plot.y_scale = "linear"
    return bad


def replay_walk(walk):
    warnings.simplefilter("ignore")
    import logging
    logging.getLogger("matplotlib").setLevel(logging.ERROR)
    sysm = Sys(walk["first"])
    issues = []
    for k, e in enumerate(walk["steps"]):
        a = e["a"]
        sysm.step(a)
        if a["name"] != "Draw":
            continue
        bad = check_draw(sysm, a)
        if bad:
            what, drawn, exp = bad[0]
            issues.append(dict(kind="violation", step=k, kf=None,
                               signature="DrawnIsCurrent: %s differ(s) from the fit's numbers [%s/%s%s]" % (re.sub(r" of parameter \d+", "", what), sysm.ftype, sysm.cost,
                                                                                                          "" if a["panel"] == "none" else "/" + a["panel"]),
                               detail=dict(what=what, drawn=drawn, expected=exp, options=a, history=[s["a"] for s in walk["steps"][:k + 1]], all=[b[0] for b in bad])))
            return issues
        drawn_types = set()
        # the wiring table: every artist the spec lists must have been drawn (and no other kind of main artist)
    return issues
