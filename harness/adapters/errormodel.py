"""Adapter: ErrorModel.tla actions -> the six container kinds of kafe2."""
import copy
import warnings

import numpy as np

from kafe2.fit.histogram.container import HistContainer
from kafe2.fit.histogram.model import HistParametricModel
from kafe2.fit.indexed.container import IndexedContainer
from kafe2.fit.indexed.model import IndexedParametricModel
from kafe2.fit.xy.container import XYContainer
from kafe2.fit.xy.model import XYParametricModel

SCALE = 200.0


def _idx_model(a, b):
    return np.array([a, b])


def _xy_model(x, a, b):
    return a * x + 0.0 * b


def _hist_density(x, a, b):
    return a + (b - a) * (x - 0.5)


def build(kind):
    if kind == "indexed":
        return IndexedContainer([1.0, 2.0])
    if kind == "xy":
        return XYContainer([1.0, 2.0], [1.0, 2.0])
    if kind == "hist":
        h = HistContainer(2, (0.0, 2.0), fill_data=[0.5, 1.5, 1.5])
        h.data
        return h
    if kind == "indexedmodel":
        return IndexedParametricModel(_idx_model, [1.0, 2.0])
    if kind == "xymodel":
        return XYParametricModel([1.0, 2.0], _xy_model, [1.0, 0.0])
    if kind == "histmodel":
        return HistParametricModel(2, (0.0, 2.0), _hist_density, [1.0, 2.0], bin_evaluation="rectangle")
    raise RuntimeError(kind)


def is_xy(kind):
    return kind in ("xy", "xymodel")


def add_source(obj, kind, name, spec, bad=None):
    s = np.array([spec["s1"], spec["s2"]], dtype=float) / 10.0
    rho = spec["corr"] / 2.0
    kw = dict(name=name, relative=spec["rel"])
    pre = (spec["axis"],) if is_xy(kind) else ()
    if bad == "axis":
        pre = ("z",)
    if spec["type"] == "simple":
        err = s if s[0] != s[1] else float(s[0])
        if bad == "size":
            err = np.array([0.1, 0.2, 0.3])
        if bad == "negative":
            err = np.array([-0.1, 0.1])
        if bad == "corr_high":
            rho = 1.5
        if bad == "corr_negative":
            rho = -0.5
        if is_xy(kind):
            return obj.add_error(pre[0], err, correlation=rho, **kw)
        return obj.add_error(err, correlation=rho, **kw)
    cor = np.array([[1.0, rho], [rho, 1.0]])
    if spec["form"] == "cov":
        mat = np.outer(s, s) * cor
        if bad in ("matrix_size", "size"):
            mat = np.eye(3) * 0.01
        if bad == "negative":
            mat = np.array([[-0.01, 0.0], [0.0, 0.01]])
        return obj.add_matrix_error(*pre, err_matrix=mat, matrix_type="cov", **kw)
    err_val = s
    if bad == "cor_diag":
        cor = np.array([[2.0, rho], [rho, 1.0]])
    if bad == "matrix_size":
        cor = np.eye(3)
    if bad == "size":
        err_val = np.array([0.1, 0.2, 0.3])
    if bad == "negative":
        err_val = np.array([-0.3, 0.1])
    return obj.add_matrix_error(*pre, err_matrix=cor, matrix_type="cor", err_val=err_val, **kw)


def read_total(obj, kind, axis):
    p = (axis + "_") if is_xy(kind) else ""
    return dict(err=np.array(getattr(obj, p + "err"), dtype=float), cov=np.array(getattr(obj, p + "cov_mat"), dtype=float),
                cor=getattr(obj, p + "cor_mat"), inv=getattr(obj, p + "cov_mat_inverse"))


def read_data(obj, kind):
    return [float(v) for v in (obj.y if is_xy(kind) else obj.data)]


def scramble(obj, kind):
    if kind == "indexed":
        obj.data = [70.0, 80.0]
    elif kind == "xy":
        obj.x = [7.0, 8.0]
        obj.y = [70.0, 80.0]
    elif kind == "hist":
        obj.fill([0.5] * 5)
    elif kind == "xymodel":
        obj.parameters = [9.0, 0.0]
        obj.x = [5.0, 6.0]
    else:
        obj.parameters = [9.0, 8.0]


def check_total(got, ideal3):
    """Compare what the container reports with the spec's integer matrix. Returns None or a description."""
    M = np.array([[ideal3[0], ideal3[1]], [ideal3[1], ideal3[2]]], dtype=float) / SCALE
    cov = got["cov"]
    if cov.shape != (2, 2) or not np.allclose(cov, M, rtol=1e-9, atol=1e-12):
        return "cov_mat", M.tolist(), cov.tolist()
    if not np.allclose(cov, cov.T, rtol=0, atol=1e-15):
        return "cov_mat symmetry", None, cov.tolist()
    if np.min(np.linalg.eigvalsh(cov)) < -1e-12:
        return "cov_mat positive semi-definite", None, cov.tolist()
    if not np.allclose(got["err"], np.sqrt(np.diag(M)), rtol=1e-9, atol=1e-12):
        return "err", np.sqrt(np.diag(M)).tolist(), got["err"].tolist()
    d = np.sqrt(np.diag(M))
    if np.all(d > 0):
        cor = np.array(got["cor"], dtype=float)
        if not np.allclose(cor, M / np.outer(d, d), rtol=1e-9, atol=1e-12):
            return "cor_mat", (M / np.outer(d, d)).tolist(), cor.tolist()
        det = M[0, 0] * M[1, 1] - M[0, 1] ** 2
        if det > 1e-9 * M[0, 0] * M[1, 1]:
            inv = got["inv"]
            if inv is None or not np.allclose(np.array(inv, dtype=float), np.linalg.inv(M), rtol=1e-7, atol=1e-12):
                return "cov_mat_inverse", np.linalg.inv(M).tolist(), None if inv is None else np.array(inv).tolist()
    return None


def step(state, a):
    obj, kind = state["obj"], state["kind"]
    name = a["name"]
    try:
        if name == "AddSource":
            add_source(obj, kind, a["n"], a["spec"])
        elif name == "AddBad":
            add_source(obj, kind, a["n"], a["spec"], bad=a["bad"])
        elif name == "Disable":
            obj.disable_error(a["n"])
        elif name == "Enable":
            obj.enable_error(a["n"])
        elif name == "SetData":
            obj.data = [float(v) for v in a["y"]] if kind == "indexed" else [[float(v) for v in a["x"]], [float(v) for v in a["y"]]]
        elif name == "SetDataBad":
            obj.data = [1.0, 2.0, 3.0] if kind == "indexed" else [[1.0, 2.0, 3.0]]
        elif name == "SetAxis":
            setattr(obj, a["axis"], [float(v) for v in a["v"]])
        elif name == "SetParams":
            obj.parameters = [float(v) for v in a["p"]]
        elif name == "SetModelX":
            obj.x = [float(v) for v in a["x"]]
        elif name == "Fill":
            obj.fill([0.5] * a["c"][0] + [1.5] * a["c"][1])
        elif name == "ReadData":
            return {"kind": "value", "v": read_data(obj, kind)}
        elif name == "ReadTotal":
            return {"kind": "value", "tot": read_total(obj, kind, a["axis"])}
        elif name == "Reload":
            import os
            from .fileio import tmpdir
            path = os.path.join(tmpdir(), "c09-em-%d.yml" % os.getpid())
            try:
                obj.to_file(path)
                state["obj"] = type(obj).from_file(path)
            finally:
                if os.path.exists(path):
                    os.remove(path)
        elif name == "Copy":
            new = copy.deepcopy(obj)
            scramble(obj, kind)
            state["obj"] = new
        else:
            raise RuntimeError("adapter: unknown action %r" % name)
    except RuntimeError as exc:
        if "adapter" in str(exc):
            raise
        return {"kind": "reject", "exc": type(exc).__name__}
    except Exception as exc:
        return {"kind": "reject", "exc": "%s: %s" % (type(exc).__name__, str(exc)[:80])}
    return {"kind": "none"}


def replay_walk(walk):
    warnings.simplefilter("ignore")
    issues = []
    kind = walk["first"]["kind"]
    state = dict(obj=build(kind), kind=kind)
    last = walk["init"]
    axes = ["x", "y"] if is_xy(kind) else ["y"]
    before_disable = None           # (name, {axis: cov}) captured right before a Disable

    def viol(k, sig, detail, kf=None):
        issues.append(dict(kind="violation", step=k, kf=kf, signature="%s [%s]" % (sig, kind), detail=detail))

    for k, e in enumerate(walk["steps"]):
        a, exp = e["a"], e["o"]
        snap = None
        if a["name"] == "Disable" and a["n"] in last["on"]:
            try:
                snap = (a["n"], {ax: read_total(state["obj"], kind, ax)["cov"] for ax in axes})
            except Exception:
                snap = None
        got = step(state, a)
        if a["name"] == "ReadTotal":
            if got["kind"] != "value":
                viol(k, "ReadCorrect: reading the total uncertainty raised", got)
                return issues
            bad = check_total(got["tot"], e["ideal"][a["axis"]])
            if bad:
                viol(k, "ReadCorrect: %s of axis %s after %s" % (bad[0], a["axis"], prev_name(walk, k)), dict(expected=bad[1], actual=bad[2]))
                return issues
        elif a["name"] == "ReadData":
            if got["kind"] != "value" or not np.allclose(got["v"], e["truevals"]["y"], rtol=1e-12):
                viol(k, "ReadCorrect: stored values", dict(expected=e["truevals"]["y"], actual=got))
                return issues
        elif exp["kind"] == "reject" and got["kind"] != "reject":
            viol(k, "Rejected: %s(%s) was accepted" % (a["name"], a.get("bad", "")), dict(action=a))
            return issues
        elif exp["kind"] != "reject" and got["kind"] == "reject":
            viol(k, ("OwnClassRoundTrip: save + load raised" if a["name"] == "Reload" else "valid %s raised" % a["name"]), dict(action=a, exc=got.get("exc")))
            return issues
        # DisableEnableRestores: Disable(e) directly followed by Enable(e) restores the total exactly
        if a["name"] == "Enable" and before_disable and before_disable[0] == a["n"]:
            for ax in axes:
                now = read_total(state["obj"], kind, ax)["cov"]
                if not np.array_equal(now, before_disable[1][ax]):
                    viol(k, "DisableEnableRestores: total of axis %s not restored exactly" % ax,
                         dict(before=before_disable[1][ax].tolist(), after=now.tolist()))
                    return issues
        before_disable = snap
        last = e
    # final probe: every axis, then the stored values, then every axis again
    for rnd in (0, 1):
        for ax in axes:
            try:
                tot = read_total(state["obj"], kind, ax)
            except Exception as exc:
                viol(len(walk["steps"]) - 1, "ReadCorrect: final read of the total uncertainty raised", repr(exc))
                return issues
            bad = check_total(tot, last["ideal"][ax])
            if bad:
                viol(len(walk["steps"]) - 1, "ReadCorrect: final %s of axis %s (%s)" % (bad[0], ax, "first read" if rnd == 0 else "after reading the values"),
                     dict(expected=bad[1], actual=bad[2]))
                return issues
        if rnd == 0:
            v = read_data(state["obj"], kind)
            if not np.allclose(v, last["truevals"]["y"], rtol=1e-12):
                viol(len(walk["steps"]) - 1, "ReadCorrect: final stored values", dict(expected=last["truevals"]["y"], actual=v))
                return issues
    return issues


def prev_name(walk, k):
    return walk["steps"][k - 1]["a"]["name"] if k > 0 else "Init"
