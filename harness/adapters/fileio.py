"""C09 adapters: (1) FileIO.tla histories on one real path with a catalogue of real objects;
(2) Reload differential for fits: the original object is kept alive next to the reloaded one."""
import os
import tempfile
import warnings

import numpy as np

from .. import fitlib as fl

ROOT = os.path.dirname(os.path.dirname(os.path.dirname(os.path.abspath(__file__))))


def tmpdir():
    d = os.path.join(ROOT, "build", "run-%d" % os.getpid())
    os.makedirs(d, exist_ok=True)
    return d


# ------------------------------------------------------------------------------------------------
# catalogue

def _idx_model(a=1.5, b=0.5):
    return a * np.array([1.0, 2.0, 3.0, 4.0]) + b


def _xy_model(x, a=1.5, b=0.5):
    return a * x + b


def _density(x, mu=2.5, sigma=1.0):
    return np.exp(-0.5 * ((x - mu) / sigma) ** 2) / np.sqrt(2.0 * np.pi * sigma ** 2)


def _custom_cost(a=1.0, b=2.0, c=0.5):
    return (a - 1.5) ** 2 / 0.04 + (b - 0.5 * a) ** 2 / 0.09 + (c + 0.2) ** 2 + 0.3 * a * c


def _scaled_density(x, mu=2.5, sigma=1.0, n=25.0):
    return n * np.exp(-0.5 * ((x - mu) / sigma) ** 2) / np.sqrt(2.0 * np.pi * sigma ** 2)


def build(obj_id):
    from kafe2 import HistContainer, IndexedContainer, UnbinnedContainer, XYContainer
    from kafe2.core.constraint import GaussianMatrixParameterConstraint, GaussianSimpleParameterConstraint
    from kafe2.fit.histogram.model import HistParametricModel
    from kafe2.fit.indexed.model import IndexedParametricModel
    from kafe2.fit.xy.model import XYParametricModel
    warnings.simplefilter("ignore")
    n = 4
    cor = np.full((n, n), 0.3) + np.eye(n) * 0.7
    if obj_id == "c_indexed":
        c = IndexedContainer([2.3, -4.2, 7.5, 9.4])
        c.add_error(0.3, name="a")
        c.add_error([0.01, 0.02, 0.03, 0.04], name="r", relative=True, correlation=0.5)
        c.add_matrix_error(cor * 0.04, "cov", name="m")
        c.add_matrix_error(cor, "cor", err_val=[0.1, 0.2, 0.1, 0.3], name="mc", relative=True)
        c.add_error(0.7, name="off")
        c.disable_error("off")
        c.label = "indexed data"
        return c
    if obj_id == "c_xy":
        c = XYContainer([1.0, 2.0, 3.0, 4.0], [2.3, 4.2, 7.5, 9.4])
        c.add_error("y", 0.3, name="ey")
        c.add_error("x", 0.05, name="ex", relative=True)
        c.add_matrix_error("y", cor * 0.04, "cov", name="my", relative=False)
        c.add_error("x", 0.2, name="exoff")
        c.disable_error("exoff")
        c.label, c.axis_labels = "xy data", ("t", "U")
        return c
    if obj_id == "c_hist":
        c = HistContainer(n_bins=5, bin_range=(0.0, 5.0), fill_data=fl.H0 + [-1.0, 7.0, 8.0])
        c.add_error(0.5, name="h")
        return c
    if obj_id == "c_hist_manual":
        c = HistContainer(n_bins=3, bin_range=(0.0, 3.0))
        c.set_bins([4, 7, 2], underflow=1, overflow=5)
        return c
    if obj_id == "c_hist_edges":
        c = HistContainer(bin_edges=[0.0, 0.5, 2.0, 5.0], fill_data=fl.H1)
        c.data
        c.fill([0.1, 4.9])
        return c
    if obj_id == "c_unbinned":
        return UnbinnedContainer(fl.H1)
    if obj_id == "m_indexed":
        m = IndexedParametricModel(_idx_model, [1.4, 0.3])
        m.add_error(0.2, name="ma")
        m.add_error(0.05, name="mr", relative=True)
        return m
    if obj_id == "m_xy":
        m = XYParametricModel([1.0, 2.0, 3.0, 4.0], _xy_model, [1.4, 0.3])
        m.add_error("y", 0.05, name="mr", relative=True)
        m.add_error("x", 0.1, name="mx")
        return m
    if obj_id == "m_hist":
        m = HistParametricModel(5, (0.0, 5.0), _density, [2.4, 1.1])
        m.add_error(0.02, name="ma")
        return m
    if obj_id == "m_hist_edges":       # non-equidistant bins
        m = HistParametricModel(3, (0.0, 5.0), _density, [2.4, 1.1], bin_edges=[0.0, 0.5, 2.0, 5.0], bin_evaluation="numerical")
        m.add_error(0.01, name="ma")
        return m
    if obj_id in ("f_histedges_plain", "f_histedges_fit"):
        from kafe2 import HistFit
        f = HistFit(HistContainer(bin_edges=[0.0, 0.5, 2.0, 3.0, 5.0], fill_data=fl.H0 + [5.5]), _density)
        f.limit_parameter("sigma", 0, 3.0)      # a bound of exactly 0
        if obj_id.endswith("fit"):
            f.do_fit()
        return f
    if obj_id == "m_hist_nodensity":
        m = HistParametricModel(5, (0.0, 5.0), _density, [2.4, 1.1], density=False)
        return m
    if obj_id == "f_hist_nodensity":
        from kafe2 import HistFit
        f = HistFit(fl.make_data("hist", "d0"), _scaled_density, density=False)
        f.add_error(0.5, name="own")
        return f
    if obj_id == "k_simple":
        return GaussianSimpleParameterConstraint(1, 2.0, 0.3)
    if obj_id == "k_simple_rel":
        return GaussianSimpleParameterConstraint(0, 2.0, 0.1, relative=True)
    if obj_id == "k_matrix":
        return GaussianMatrixParameterConstraint([0, 1], [2.0, 3.0], [[0.04, 0.01], [0.01, 0.09]])
    if obj_id == "k_matrix_rel_cor":
        return GaussianMatrixParameterConstraint([1, 0], [2.0, 3.0], [[1.0, 0.2], [0.2, 1.0]], matrix_type="cor", uncertainties=[0.1, 0.05], relative=True)
    if obj_id.startswith("f_custom"):
        from kafe2 import CustomFit
        f = CustomFit(_custom_cost)
        f.add_parameter_constraint("b", 0.6, 0.4)
        f.limit_parameter("a", -4.0, 6.0)
        if obj_id.endswith("fixedfit"):
            f.fix_parameter("c", 0.3)
        if obj_id.endswith("fit"):
            f.do_fit()
        return f
    if obj_id.startswith("f_"):
        _, ftype, variant = obj_id.split("_")
        f = fl.make_fit(ftype)
        if ftype != "unbinned":
            fl.add_source(f, ftype, "ey1")
            fl.add_source(f, ftype, "ey2")
            fl.add_source(f, ftype, "em1")
            f.disable_error("ey2")
        fl.add_constraint(f, ftype, "c1")
        fl.add_constraint(f, ftype, "c4")
        names = fl.PARAMS[ftype]
        # the lower bound of the xy / indexed fits is exactly 0
        f.limit_parameter(names[0], 0 if ftype in ("xy", "indexed") else fl.PVALS[ftype][names[0]][0] - 3.0, fl.PVALS[ftype][names[0]][0] + 3.0)
        if variant in ("fixed", "fixedfit"):
            f.fix_parameter(names[1], fl.PVALS[ftype][names[1]][1])
        if variant in ("fit", "fixedfit", "asym"):
            f.do_fit()
        if variant == "asym":
            f.asymmetric_parameter_errors
        return f
    raise ValueError(obj_id)


OBJECTS = ["c_indexed", "c_xy", "c_hist", "c_hist_manual", "c_hist_edges", "c_unbinned", "m_indexed", "m_xy", "m_hist", "m_hist_nodensity", "f_hist_nodensity",
           "k_simple", "k_simple_rel", "k_matrix", "k_matrix_rel_cor",
           "f_xy_plain", "f_xy_fit", "f_xy_fixedfit", "f_xy_asym", "f_indexed_fixed", "f_indexed_fit", "f_hist_fit", "f_hist_plain", "f_unbinned_fit",
           "f_custom_plain", "f_custom_fit", "f_custom_fixedfit", "m_hist_edges", "f_histedges_plain", "f_histedges_fit"]


def family(obj_id):
    return {"c": "container", "m": "model", "k": "constraint", "f": "fit"}[obj_id[0]]


def classes(obj, obj_id):
    """(own class, base class of the family, another concrete class of the family)"""
    from kafe2 import HistContainer, IndexedContainer, XYContainer, XYFit, IndexedFit
    from kafe2.core.constraint import GaussianMatrixParameterConstraint, GaussianSimpleParameterConstraint, ParameterConstraint
    from kafe2.fit._base import DataContainerBase, FitBase, ParametricModelBaseMixin
    from kafe2.fit.indexed.model import IndexedParametricModel
    from kafe2.fit.xy.model import XYParametricModel
    fam = family(obj_id)
    own = type(obj)
    if fam == "container":
        return own, DataContainerBase, (XYContainer if own is not XYContainer else IndexedContainer)
    if fam == "model":
        # the models' base is a mixin without file methods: "base" means the class itself here
        return own, own, (XYParametricModel if own is not XYParametricModel else IndexedParametricModel)
    if fam == "constraint":
        return own, ParameterConstraint, (GaussianMatrixParameterConstraint if own is GaussianSimpleParameterConstraint else GaussianSimpleParameterConstraint)
    return own, FitBase, (XYFit if own is not XYFit else IndexedFit)


# ------------------------------------------------------------------------------------------------
# projections

def _arr(v):
    return None if v is None else np.asarray(v, dtype=float)


def project(obj, obj_id):
    fam = family(obj_id)
    p = {"class": type(obj).__name__}
    if fam in ("container", "model"):
        p["data"] = _arr(obj.data)
        p["label"] = obj.label
        p["axis_labels"] = tuple(obj.axis_labels)
        p["sources"] = sorted((n, bool(d["enabled"]), type(d["err"]).__name__, bool(d["err"].relative), d.get("axis", None)) for n, d in obj._error_dicts.items())
        if hasattr(obj, "x_cov_mat"):
            p["x_cov"], p["y_cov"] = _arr(obj.x_cov_mat), _arr(obj.y_cov_mat)
        else:
            p["cov"] = _arr(obj.cov_mat)
        if hasattr(obj, "bin_edges"):
            p["bin_edges"] = _arr(obj.bin_edges)
            p["underflow"], p["overflow"] = float(obj.underflow), float(obj.overflow)
            p["n_entries"] = float(obj.n_entries)
        if fam == "model":
            p["parameters"] = _arr(obj.parameters)
            if hasattr(obj, "density"):
                p["density"] = bool(obj.density)
                p["bin_evaluation"] = str(obj.bin_evaluation_string)
    elif fam == "constraint":
        pt = np.array([1.7, 2.6, 0.4])
        p["extra_ndf"] = obj.extra_ndf
        p["relative"] = bool(obj.relative)
        p["cost"] = float(obj.cost(pt))
    else:
        ftype = obj_id.split("_")[1]
        if ftype == "custom":
            p.update(parameter_names=list(obj.parameter_names), parameter_values=_arr(obj.parameter_values),
                     fixed=sorted((k, float(v)) for k, v in obj._fitter.fixed_parameters.items()),
                     limited=sorted((k, tuple(None if x is None else float(x) for x in v)) for k, v in obj._fitter.limited_parameters.items()),
                     cost=float(obj.cost_function_value), did_fit=bool(obj.did_fit),
                     constraint_cost=float(sum(c.cost(obj.parameter_values) for c in obj.parameter_constraints)),
                     parameter_errors=_arr(obj.parameter_errors) if obj.did_fit else None,
                     parameter_cov_mat=_arr(obj.parameter_cov_mat) if obj.did_fit else None)
            return p
        p["data"] = _arr(obj.data)
        p["parameter_names"] = list(obj.parameter_names)
        p["parameter_values"] = _arr(obj.parameter_values)
        p["fixed"] = sorted((k, float(v)) for k, v in obj._fitter.fixed_parameters.items())
        p["limited"] = sorted((k, tuple(None if x is None else float(x) for x in v)) for k, v in obj._fitter.limited_parameters.items())
        p["cost"] = float(obj.cost_function_value)
        p["ndf"] = int(obj.ndf)
        p["did_fit"] = bool(obj.did_fit)
        p["total_cov"] = _arr(obj.total_cov_mat)
        p["model"] = _arr(obj.y_model if ftype == "xy" else obj.model)
        if hasattr(obj, "density"):
            p["density"] = bool(obj.density)
        p["constraint_cost"] = float(sum(c.cost(obj.parameter_values) for c in obj.parameter_constraints))
        p["parameter_errors"] = _arr(obj.parameter_errors) if obj.did_fit else None
        p["parameter_cov_mat"] = _arr(obj.parameter_cov_mat) if obj.did_fit else None
        asym = obj._loaded_result_dict["asymmetric_parameter_errors"] if obj._loaded_result_dict is not None else obj._fitter.asymmetric_fit_parameter_errors_if_calculated
        p["asymmetric"] = _arr(asym)
        if ftype != "unbinned":
            p["sources"] = sorted((n, bool(d["enabled"])) for c in (obj.data_container, obj._param_model) for n, d in c._error_dicts.items())
    return p


def diff(p, q, rtol=1e-9):
    for k in p:
        a, b = p[k], q.get(k)
        if isinstance(a, np.ndarray) or isinstance(b, np.ndarray):
            if a is None or b is None:
                if k == "asymmetric" and a is None:
                    continue            # lazily computed optional field: may appear, but what was stored must not get lost
                return "%s: %r vs %r" % (k, a, b)
            if a.shape != b.shape or not np.allclose(a, b, rtol=rtol, atol=1e-12, equal_nan=True):
                return "%s: %s vs %s" % (k, np.array2string(a.ravel()[:8], precision=8), np.array2string(b.ravel()[:8], precision=8))
        elif isinstance(a, float):
            if b is None or abs(a - b) > rtol * max(1.0, abs(a)):
                return "%s: %r vs %r" % (k, a, b)
        elif a != b:
            return "%s: %r vs %r" % (k, a, b)
    return None


# ------------------------------------------------------------------------------------------------
# (1) the file protocol on one path

def replay_walk(walk):
    warnings.simplefilter("ignore")
    issues = []
    path = os.path.join(tmpdir(), "c09-%d.yml" % (abs(hash(str(walk["steps"]))) % 10 ** 9))
    if os.path.exists(path):
        os.remove(path)
    written, mem, mem_id = {}, None, None

    def viol(k, sig, detail):
        issues.append(dict(kind="violation", step=k, kf=None, signature=sig, detail=detail))

    try:
        for k, e in enumerate(walk["steps"]):
            a, exp = e["a"], e["o"]
            if a["name"] == "Write":
                obj = build(a["id"])
                written[a["id"]] = project(obj, a["id"])
                try:
                    obj.to_file(path)
                except Exception as exc:
                    viol(k, "OwnClassRoundTrip: %s cannot be saved (%s)" % (a["id"], type(exc).__name__), dict(exc=str(exc)[:300]))
                    return issues
            elif a["name"] == "Rewrite":
                try:
                    mem.to_file(path)
                except Exception as exc:
                    viol(k, "SecondCycle: the reloaded %s cannot be saved again (%s)" % (mem_id, type(exc).__name__), dict(exc=str(exc)[:300]))
                    return issues
            elif a["name"] == "Read":
                last_id = e["file"][-1]
                own, base, other = classes(build(last_id), last_id)
                cls = dict(own=own, base=base, other=other)[a["via"]]
                try:
                    got = cls.from_file(path)
                except Exception as exc:
                    if exp["kind"] == "reject":
                        continue
                    viol(k, "%s: reading %s through %s raised %s" % ("OwnClassRoundTrip" if a["via"] == "own" else "ReadReturnsLastWritten", last_id, a["via"] + " class", type(exc).__name__),
                         dict(exc=str(exc)[:300]))
                    return issues
                if exp["kind"] == "reject":
                    viol(k, "Rejected: %s was read through a different class (%s)" % (last_id, cls.__name__), dict())
                    return issues
                d = diff(written[last_id], project(got, last_id), rtol=1e-3 if written[last_id].get("did_fit") else 1e-9)
                if d:
                    viol(k, "ReadReturnsLastWritten / fidelity: %s differs after save + load: %s" % (last_id, d.split(":")[0]), dict(difference=d, history=[s["a"] for s in walk["steps"][:k + 1]]))
                    return issues
                mem, mem_id = got, last_id
    finally:
        if os.path.exists(path):
            os.remove(path)
    return issues


# ------------------------------------------------------------------------------------------------
# (2) reload differential for fits (FitCache histories with a Reload marker)

def reload_fit(fit):
    path = os.path.join(tmpdir(), "c09-fit-%d-%d.yml" % (os.getpid(), id(fit) % 10 ** 6))
    try:
        fit.to_file(path)
        return type(fit).from_file(path)
    finally:
        if os.path.exists(path):
            os.remove(path)


RELOAD_OBS = ("cost", "total_cov", "model", "ndf", "pvals", "did_fit", "fixed", "limited", "has_errors")


def replay_reload_walk(walk):
    warnings.simplefilter("ignore")
    ftype, dea = walk["first"]["type"], walk["first"]["dea"]
    orig = fl.make_fit(ftype, dea=dea)
    twin = None
    issues = []

    def viol(k, sig, detail):
        issues.append(dict(kind="violation", step=k, kf=None, signature="%s [%s]" % (sig, ftype), detail=detail))

    def compare(k, where, observables):
        fitted = any(s["a"]["name"] == "DoFit" for s in walk["steps"][:k + 1])
        for o in observables:
            a, b = fl.safe_read(orig, ftype, o), fl.safe_read(twin, ftype, o)
            sig = fl.safe_read(orig, ftype, "perrs")
            d = fl.compare(o, b, a, fitted=fitted, sigma=sig[1] if sig[0] == "value" else None)
            if d:
                viol(k, "ReloadPreservesConfig: %s of the reloaded fit differs from the original %s" % (o, where),
                     dict(observable=o, difference=d, history=[s["a"] for s in walk["steps"][:k + 1]]))
                return False
        return True

    muts = []
    # fit RESULTS (uncertainties, covariance, result dictionary) are compared only while they are current: after a mutator and before the
    # next fit the statement promises the same configuration and "the same result when refitted", not the same left-over results
    results_current = False
    for k, e in enumerate(walk["steps"]):
        a = e["a"]
        if a["name"] == "DoFit":
            results_current = True
        elif a["name"] not in ("Read", "Reload"):
            results_current = False
        if a["name"] == "Reload":
            if not e.get("posdef", True):
                continue
            try:
                twin = reload_fit(twin if twin is not None else orig)
            except Exception as exc:
                viol(k, "OwnClassRoundTrip: fit cannot be saved and reloaded (%s)" % type(exc).__name__, dict(exc=str(exc)[:300], history=[s["a"] for s in walk["steps"][:k + 1]]))
                return issues
            if not compare(k, "(right after reloading)", RELOAD_OBS):
                return issues
        elif a["name"] == "Read":
            if twin is not None and e.get("posdef", True) and (results_current or a["o"] not in ("result", "perrs", "pcov")) \
                    and not compare(k, "(later read)", [a["o"]]):
                return issues
            elif twin is None:
                fl.safe_read(orig, ftype, a["o"])
        else:
            r1 = fl.apply_action(orig, ftype, a)
            if twin is not None:
                r2 = fl.apply_action(twin, ftype, a)
                if r1 != r2:
                    viol(k, "ReloadPreservesConfig: %s behaves differently on the reloaded fit" % a["name"], dict(original=r1, reloaded=r2))
                    return issues
    if twin is not None and walk["steps"] and walk["steps"][-1].get("posdef", True):
        compare(len(walk["steps"]) - 1, "(final probe)", RELOAD_OBS)
    return issues
