"""Adapter: HistModel.tla actions -> kafe2 HistFit / HistParametricModel (C13).

The spec's numbers are the bin contents times 960 (exact integers); the real bin contents are compared after dividing by 960.
Exact rules (midpoint, trapezoid, Simpson on polynomial densities with integer edges) are floating-point sums of a handful of
small dyadic numbers: tolerance 1e-12 relative.  scipy's quad: 1e-9 relative ("integration accuracy")."""
import warnings

import numpy as np

from kafe2 import HistContainer, HistFit
from kafe2.fit.histogram.model import HistParametricModel

SCALE = 960.0


def poly(x, c0, c1, c2, c3, c4):
    return c0 + c1 * x + c2 * x ** 2 + c3 * x ** 3 + c4 * x ** 4


def poly_antider(x, c0, c1, c2, c3, c4):
    return c0 * x + c1 * x ** 2 / 2.0 + c2 * x ** 3 / 3.0 + c3 * x ** 4 / 4.0 + c4 * x ** 5 / 5.0


def _scalar_antider(x, c0, c1, c2, c3, c4):
    x = float(x)     # refuses arrays: this one only works through numpy.vectorize
    return c0 * x + c1 * x ** 2 / 2.0 + c2 * x ** 3 / 3.0 + c3 * x ** 4 / 4.0 + c4 * x ** 5 / 5.0


def bin_evaluation(method):
    if method == "antiderivative":
        return poly_antider
    if method == "vectorised":
        return np.vectorize(_scalar_antider)
    return method


def entries(edges, n, out=0):
    """n entries, deterministic: n - out spread over the bins, out outside the range (alternately below and above)."""
    lo, hi = float(edges[0]), float(edges[-1])
    m = n - out
    return [lo + (hi - lo) * (k + 0.5) / m for k in range(m)] + [(lo - 1.5 - k) if k % 2 == 0 else (hi + 0.5 + k) for k in range(out)]


def container(edges, n, out=0):
    e = [float(x) for x in edges]
    return HistContainer(n_bins=len(e) - 1, bin_range=(e[0], e[-1]), bin_edges=e, fill_data=entries(e, n, out))


def tol(method):
    return 1e-9 if method == "numerical" else 1e-12


def close(real, ideal960, method):
    real = np.asarray(real, dtype=float)
    ideal = np.asarray(ideal960, dtype=float) / SCALE
    return real.shape == ideal.shape and bool(np.all(np.abs(real - ideal) <= tol(method) * np.maximum(1.0, np.abs(ideal))))


def smooth(x, mu, sigma, lam, w):
    """mixture of a normal and an exponential density (w in [0, 1])"""
    return w * np.exp(-0.5 * ((x - mu) / sigma) ** 2) / (sigma * np.sqrt(2 * np.pi)) + (1 - w) * lam * np.exp(-lam * x)


def smooth_antider(x, mu, sigma, lam, w):
    from scipy.special import erf
    return w * 0.5 * (1 + erf((x - mu) / (sigma * np.sqrt(2)))) - (1 - w) * np.exp(-lam * x)


def _smooth_antider_scalar(x, mu, sigma, lam, w):
    return float(smooth_antider(float(x), mu, sigma, lam, w))


def smooth_pars(c):
    """spec coefficient vector -> parameters of the smooth companion density"""
    return [0.5 * float(sum(c)), 1.5, 0.5, 0.25 * (1 + (int(sum(abs(v) for v in c)) % 3))]


def smooth_bounds(pars):
    """bounds on the second and fourth derivative of the mixture on x >= 0"""
    mu, sigma, lam, w = pars
    g = 1.0 / (sigma * np.sqrt(2 * np.pi))
    return w * g / sigma ** 2 + (1 - w) * lam ** 3, w * 3 * g / sigma ** 4 + (1 - w) * lam ** 5


class Sys:
    """The fit and, next to it, a free-standing parametric model driven by the same actions."""

    def __init__(self, first):
        self.method, self.density = first["method"], first["density"]
        c = [float(v) for v in first["poly"]]
        self.out = first["out"]
        self.fit = HistFit(container(first["edges"], first["n"], first["out"]), model_function=poly, bin_evaluation=bin_evaluation(self.method),
                           density=self.density)
        self.fit.set_all_parameter_values(c)
        e = [float(x) for x in first["edges"]]
        self.pm = HistParametricModel(len(e) - 1, (e[0], e[-1]), poly, c, e, bin_evaluation=bin_evaluation(self.method), density=self.density)
        be = {"antiderivative": smooth_antider, "vectorised": np.vectorize(_smooth_antider_scalar)}.get(self.method, self.method)
        self.sm = HistParametricModel(len(e) - 1, (e[0], e[-1]), smooth, smooth_pars(first["poly"]), e, bin_evaluation=be, density=self.density)

    def step(self, a):
        if a["name"] == "SetParams":
            c = [float(v) for v in a["c"]]
            self.fit.set_all_parameter_values(c)
            self.pm.parameters = c
            self.sm.parameters = smooth_pars(a["c"])
        elif a["name"] == "SetData":
            self.out = a["out"]
            self.fit.data = container(a["edges"], a["n"], a["out"])
            e = [float(x) for x in a["edges"]]
            self.pm.rebin(e)
            self.sm.rebin(e)
        elif a["name"] == "Rebin":
            e = [float(x) for x in a["edges"]]
            self.fit.data = container(e, int(round(self.fit._data_container.n_entries)), self.out)
            self.pm.rebin(e)
            self.sm.rebin(e)
        elif a["name"] != "ReadModel":
            raise RuntimeError("adapter: unknown action %r" % a["name"])

    def read(self):
        return dict(pm_fit=[float(v) for v in self.fit._param_model.data], fit=[float(v) for v in self.fit.model],
                    pm=[float(v) for v in self.pm.data])


def check(sysm, st, k, where):
    """Compare every observable with the spec state st (ideal bins x 960, density flag, number of entries)."""
    got = sysm.read()
    m = st["method"]
    scale = st["n"] if st["density"] else 1
    exp_fit = [v * scale for v in st["ideal"]]
    for name, real, ideal in (("HistFit.model", got["fit"], exp_fit), ("HistFit parametric model data", got["pm_fit"], st["ideal"]),
                              ("HistParametricModel.data", got["pm"], st["ideal"])):
        if not close(real, ideal, m):
            return dict(kind="violation", step=k, kf=None, signature="ModelFollowsParams: %s (%s, %s)" % (name, m, where),
                        detail=dict(expected=[v / SCALE for v in ideal], actual=real, poly=st["poly"], edges=st["edges"], n=st["n"],
                                    density=st["density"]))
    # the density itself at the edges and centres
    e = np.asarray(st["edges"], dtype=float)
    xs = np.concatenate([e, 0.5 * (e[:-1] + e[1:])])
    dens = np.asarray(sysm.fit.eval_model_function_density(xs), dtype=float)
    want = poly(xs, *[float(v) for v in st["poly"]])
    if dens.shape != want.shape or not np.allclose(dens, want, rtol=1e-13, atol=0):
        return dict(kind="violation", step=k, kf=None, signature="eval_model_function_density differs from the density (%s)" % where,
                    detail=dict(expected=want.tolist(), actual=dens.tolist()))
    # the smooth companion (normal + exponential mixture): exact through the antiderivative, quadrature to integration accuracy,
    # the rules within their textbook error bounds  h^3/24 M2, h^3/12 M2, h^5/2880 M4
    pars = smooth_pars(st["poly"])
    exact = smooth_antider(e[1:], *pars) - smooth_antider(e[:-1], *pars)
    real = np.asarray(sysm.sm.data, dtype=float)
    h = e[1:] - e[:-1]
    m2, m4 = smooth_bounds(pars)
    bound = {"midpoint": h ** 3 / 24 * m2, "rectangle": h ** 3 / 24 * m2, "trapezoid": h ** 3 / 12 * m2, "simpson": h ** 5 / 2880 * m4,
             "numerical": 1e-9 * np.ones_like(h), "antiderivative": 1e-13 * np.ones_like(h), "vectorised": 1e-13 * np.ones_like(h)}[m]
    if real.shape != exact.shape or not np.all(np.abs(real - exact) <= bound * (1 + 1e-9) + 1e-15):
        return dict(kind="violation", step=k, kf=None, signature="smooth density: %s outside its error bound (%s)" % (m, where),
                    detail=dict(exact=exact.tolist(), actual=real.tolist(), bound=bound.tolist(), pars=pars, edges=st["edges"]))
    return None


def replay_walk(walk):
    warnings.simplefilter("ignore")
    first = walk["first"]
    sysm = Sys(first)
    last = walk["init"]
    for k, e in enumerate(walk["steps"]):
        a = e["a"]
        sysm.step(a)
        last = e
        if a["name"] == "ReadModel":
            iss = check(sysm, e, k, "read")
            if iss:
                return [iss]
    iss = check(sysm, last, len(walk["steps"]) - 1, "final probe")
    return [iss] if iss else []
