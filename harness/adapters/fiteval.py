"""Adapter: FitCache.tla histories -> real fits, compared with the INDEPENDENT evaluator of the declared configuration
(C01: cost; C10: ndf, goodness of fit, chi2 probability)."""
import warnings

import numpy as np

from .. import evaluator as ev
from .. import fitlib as fl

WHAT = ("cost", "gof", "chi2p", "ndf", "total_cov")


def tables():
    from kafe2.fit._base.cost import STRING_TO_COST_FUNCTION as BASE
    from kafe2.fit.unbinned.cost import STRING_TO_COST_FUNCTION as UNB
    from kafe2.fit.xy.cost import STRING_TO_COST_FUNCTION as XYT
    return {"xy": XYT, "xyq": XYT, "indexed": BASE, "hist": BASE, "unbinned": UNB}


def default_cost(ftype):
    return "nll" if ftype in ("hist", "unbinned") else "chi2"


def check_against_evaluator(fit, ftype, cost_id, st, what, tol=1e-6):
    """st: spec state record (on, cons, data_set, implicit, own_src, fixed). Returns None or (name, expected, actual)."""
    ck = ev.canonical_cost(cost_id, tables()[ftype])
    p = [float(v) for v in fit.parameter_values]
    exp = ev.expected(ftype, ck, "d0" if st["data_set"] == "d0" else "d1", p, sorted(st["on"]), sorted(st["cons"]),
                      own_src=st["own_src"], n_fixed=len(st["fixed"]), implicit_no_errors=st["implicit"])
    for w in what:
        if w == "ndf":
            got = fit.ndf
            if got != exp["ndf"]:
                return ("ndf", exp["ndf"], got)
            continue
        if w == "total_cov":
            got = np.asarray(fit.total_cov_mat, dtype=float)
            if not np.allclose(got, exp["cov"], rtol=tol, atol=1e-12):
                return ("total covariance", exp["cov"].tolist(), got.tolist())
            continue
        got = {"cost": lambda: fit.cost_function_value, "gof": lambda: fit.goodness_of_fit, "chi2p": lambda: fit.chi2_probability}[w]()
        e = exp[w]
        if e is None or got is None:
            if w == "gof" and ftype == "unbinned":
                continue
            if (e is None) != (got is None):
                return (w, e, got)
            continue
        if not np.isfinite(e) and not np.isfinite(got):
            continue
        if abs(float(got) - e) > tol * max(1.0, abs(e)):
            return (w, e, float(got))
    return None


def replay_walk(walk, cost_id=None, what=WHAT):
    warnings.simplefilter("ignore")
    ftype, dea = walk["first"]["type"], walk["first"]["dea"]
    cost_id = cost_id or walk.get("cost_id") or default_cost(ftype)
    fit = fl.make_fit(ftype, dea=dea, cost=cost_id)
    issues = []
    last = walk["init"]

    def viol(k, sig, detail):
        issues.append(dict(kind="violation", step=k, kf=None, signature="%s [%s/%s]" % (sig, ftype, cost_id), detail=detail))

    def check(k, st, where, names):
        if not st.get("posdef", True):
            return True
        if ftype == "hist" and any(fl.SOURCES[s]["ref"] == "model" and fl.SOURCES[s]["rel"] for s in st["on"]):
            kf = "KF-C01-HIST-MODEL-REL"
        else:
            kf = None
        bad = check_against_evaluator(fit, ftype, cost_id, st, names)
        if bad:
            issues.append(dict(kind="violation", step=k, kf=kf,
                               signature="%s differs from the documented value computed from the declared inputs %s [%s/%s]" % (bad[0], where, ftype, cost_id),
                               detail=dict(expected=bad[1], actual=bad[2], enabled_sources=sorted(st["on"]), constraints=sorted(st["cons"]),
                                           parameters=[float(v) for v in fit.parameter_values])))
            return False
        return True

    for k, e in enumerate(walk["steps"]):
        a, exp = e["a"], e["o"]
        if a["name"] == "Read":
            if a["o"] in what and not check(k, e, "(read in history)", [a["o"]]):
                return issues
            elif a["o"] not in what:
                fl.safe_read(fit, ftype, a["o"])
        else:
            r = fl.apply_action(fit, ftype, a)
            if exp["kind"] != "reject" and r != "none":
                viol(k, "valid %s raised %s" % (a["name"], r), dict(action=a))
                return issues
        last = e
    check(len(walk["steps"]) - 1, last, "(final probe)", list(what))
    return issues
