"""Adapter: HistFill.tla actions -> kafe2.fit.histogram.container.HistContainer."""
import warnings

import numpy as np

from kafe2.fit.histogram.container import HistContainer

WHATS = ["n_entries", "raw", "edges", "n_bins", "underflow", "data", "overflow"]


def build(ctor):
    fill = [float(x) for x in ctor["fill"]] or None
    if ctor["kind"] == "edges":
        return HistContainer(bin_edges=[float(x) for x in ctor["edges"]], fill_data=fill)
    if ctor["kind"] == "nbins":
        return HistContainer(n_bins=ctor["n"], bin_range=(float(ctor["lo"]), float(ctor["hi"])), fill_data=fill)
    if ctor["kind"] == "inner":
        return HistContainer(n_bins=ctor["n"], bin_range=(float(ctor["lo"]), float(ctor["hi"])),
                             bin_edges=[float(x) for x in ctor["inner"]], fill_data=fill)
    raise RuntimeError("unknown ctor kind")


def read(h, what):
    if what == "data":
        return [float(x) for x in h.data]
    if what == "underflow":
        return [float(h.underflow)]
    if what == "overflow":
        return [float(h.overflow)]
    if what == "n_entries":
        return [float(h.n_entries)]
    if what == "raw":
        return sorted(float(x) for x in h.raw_data)
    if what == "edges":
        return [float(x) for x in h.bin_edges]
    if what == "n_bins":
        return [float(h.n_bins)]
    raise RuntimeError(what)


def step(h, a):
    name = a["name"]
    try:
        if name == "Fill":
            h.fill([float(x) for x in a["batch"]])
        elif name == "FillScalar":
            h.fill(float(a["e"]))
        elif name == "Read":
            return {"kind": "value", "v": read(h, a["what"])}
        elif name == "Rebin":
            h.rebin([float(x) for x in a["edges"]])
        elif name == "SetBins":
            h.set_bins(list(range(1, a["n"] + 1)), underflow=1, overflow=2)
        elif name == "SetData":
            h.data = [1.0] * h.size
        else:
            raise RuntimeError("adapter: unknown action %r" % name)
    except RuntimeError as exc:
        if "adapter" in str(exc):
            raise
        return {"kind": "reject", "exc": type(exc).__name__}
    except Exception as exc:
        return {"kind": "reject", "exc": type(exc).__name__}
    return {"kind": "none"}


def same(real, spec):
    return len(real) == len(spec) and all(abs(r - s) < 1e-12 for r, s in zip(real, spec))


def replay_walk(walk):
    warnings.simplefilter("ignore")
    issues = []
    h = build(walk["first"]["ctor"])
    last = walk["init"]
    for k, e in enumerate(walk["steps"]):
        a, exp = e["a"], e["o"]
        got = step(h, a)
        last = e
        if a["name"] == "Read":
            ideal = e["idealAll"][a["what"]]
            if got["kind"] != "value" or not same(got["v"], ideal):
                issues.append(dict(kind="violation", step=k, kf=None, signature="CountsOnce: read of %s" % a["what"],
                                   detail=dict(expected=ideal, actual=got)))
                return issues
        elif exp["kind"] == "reject" and got["kind"] != "reject":
            issues.append(dict(kind="violation", step=k, kf=None, signature="Rejected: %s was accepted" % a["name"], detail=dict(action=a)))
            return issues
        elif exp["kind"] != "reject" and got["kind"] == "reject":
            issues.append(dict(kind="violation", step=k, kf=None,
                               signature="valid %s raised %s" % (a["name"], got.get("exc")), detail=dict(action=a)))
            return issues
    # final probe: every observable, non-processing reads first
    for what in WHATS:
        got = step(h, {"name": "Read", "what": what})
        ideal = last["idealAll"][what]
        if got["kind"] != "value" or not same(got["v"], ideal):
            issues.append(dict(kind="violation", step=len(walk["steps"]) - 1, kf=None,
                               signature="CountsOnce: final read of %s" % what, detail=dict(expected=ideal, actual=got)))
            break
    return issues
