"""Adapter: FixedIndex.tla states -> the real minimiser adapters (matrix / vector bookkeeping for fixed parameters)."""
import warnings

import numpy as np


def make(backend, n, fixed, targets, scales, fixed_vals):
    from kafe2.core.minimizers import get_minimizer
    names = ["q%d" % i for i in range(1, n + 1)]
    calls = []

    def cost(*p):
        calls.append(tuple(p))
        return float(sum(((p[i] - targets[i]) / scales[i]) ** 2 for i in range(n)))

    start = [fixed_vals[i] if (i + 1) in fixed else targets[i] + 0.7 * scales[i] for i in range(n)]
    m = get_minimizer(backend)(names, start, [0.1 * s for s in scales], cost)
    for i in sorted(fixed):
        m.fix(names[i - 1])
    return m, names, calls


def replay_state(job):
    warnings.simplefilter("ignore")
    st, backend = job["st"], job["backend"]
    n, fixed = st["n"], set(st["fixed"])
    issues = []

    def viol(sig, detail):
        issues.append(dict(kind="violation", step=0, kf=None, signature="%s [%s]" % (sig, backend), detail=dict(n=n, fixed=sorted(fixed), **detail)))

    targets = [1.0 + 0.5 * i for i in range(n)]
    scales = [0.2 + 0.1 * i for i in range(n)]            # distinct uncertainties: an index mix-up shows
    fixed_vals = [10.0 + i for i in range(n)]
    m, names, calls = make(backend, n, fixed, targets, scales, fixed_vals)
    free = [i for i in range(1, n + 1) if i not in fixed]
    if not free:
        try:
            m.minimize()
            viol("minimising with every parameter fixed did not raise", {})
        except Exception:
            pass
        return issues
    M = np.array([[10.0 * i + j for j in range(1, n + 1)] for i in range(1, n + 1)])
    sub = m._remove_zeroes_for_fixed(M)
    if not np.array_equal(sub, np.array(st["removed"], dtype=float)):
        viol("FixedIndex: free sub-matrix", dict(expected=st["removed"], actual=sub.tolist()))
        return issues
    full = m._fill_in_zeroes_for_fixed(sub)
    if not np.array_equal(full, np.array(st["filled"], dtype=float)):
        viol("FixedIndex: zero rows / columns filled in at the wrong positions", dict(expected=st["filled"], actual=full.tolist()))
        return issues
    # behaviour: a separable quadratic with distinct targets, uncertainties and fixed values
    del calls[:]
    m.minimize()
    pv = np.array(m.parameter_values, dtype=float)
    for i in range(1, n + 1):
        e = fixed_vals[i - 1] if i in fixed else targets[i - 1]
        tol = 0.0 if i in fixed else 0.02 * scales[i - 1]
        if abs(pv[i - 1] - e) > tol:
            viol("FixedUntouched / packing: parameter %d after minimisation" % i, dict(expected=e, actual=pv[i - 1]))
            return issues
    for c in calls:
        for i in fixed:
            if c[i - 1] != fixed_vals[i - 1]:
                viol("FixedUntouched: the cost function was evaluated with a fixed parameter moved", dict(position=i, call=c))
                return issues
    cov = m.cov_mat
    if cov is None:
        viol("covariance matrix not available after minimisation", {})
        return issues
    cov = np.asarray(cov, dtype=float)
    exp = np.diag([0.0 if i in fixed else scales[i - 1] ** 2 for i in range(1, n + 1)])          # errordef 1: cov = 2 H^-1 = diag(s^2)
    if not np.allclose(cov, exp, rtol=0.03, atol=1e-6):
        viol("Definitions: covariance = 2 * errordef * H^-1 with zero rows / columns for fixed parameters", dict(expected=exp.tolist(), actual=cov.tolist()))
        return issues
    asym = m.asymmetric_parameter_errors
    if asym is not None:
        asym = np.asarray(asym, dtype=float)
        for i in range(1, n + 1):
            e = 0.0 if i in fixed else scales[i - 1]
            if not np.allclose([-asym[i - 1][0], asym[i - 1][1]], [e, e], rtol=0.04, atol=1e-6):
                viol("Definitions: asymmetric uncertainty of parameter %d (cost rise of 1 along its profile)" % i, dict(expected=e, actual=asym[i - 1].tolist()))
                return issues
    pv2 = np.array(m.parameter_values, dtype=float)
    if np.any(np.abs(pv2 - pv) > 0.02 * np.array(scales)):
        viol("asymmetric errors moved the parameters", dict(before=pv.tolist(), after=pv2.tolist()))
    return issues
