"""Adapter: ReportView.tla histories -> real fits; report / result dictionary / saved-file preface parsed back (C17, second sentence).

Oracle: the numbers the fit object holds when the output is produced (parameter_values, parameter_errors, parameter_cor_mat, cost,
goodness_of_fit, ndf, chi2_probability, did_fit, fixed parameters), read from the same object right after the output.  Every displayed
number must lie within half a unit of ITS OWN last displayed digit of the held number."""
import io
import os
import re
import tempfile
import warnings
from fractions import Fraction

import numpy as np

from .. import fitlib as fl
from .format import parse_number

FTYPES = ("xy", "xyq", "indexed", "hist", "unbinned")
NUM = r"[-+]?(?:\d+\.?\d*|\.\d+)(?:[eE][-+]?\d+)?"


def near(txt, held, slack=0):
    """displayed number within half a unit of its own last digit (+ slack units for numbers rounded twice)"""
    v, place, neg = parse_number(txt)
    v = -v if neg else v
    if held is None or not np.isfinite(held):
        return False
    # 1e-6 of a unit of slack: the number printed and the number read back from the object a moment later can differ by rounding noise
    return abs(v - Fraction(float(held))) * 2 <= (1 + 2 * slack) * Fraction(10) ** place * (1 + Fraction(1, 10 ** 6))


def held_state(fit):
    did = bool(fit.did_fit)
    pe = fit.parameter_errors
    cor = fit.parameter_cor_mat
    return dict(names=list(fit.parameter_names), values=[float(v) for v in fit.parameter_values],
                errors=None if pe is None else [float(v) for v in pe], cor=None if cor is None else np.asarray(cor, dtype=float),
                cost=float(fit.cost_function_value), gof=None if fit.goodness_of_fit is None else float(fit.goodness_of_fit), ndf=None if fit.ndf is None else int(fit.ndf),
                chi2p=None if fit.chi2_probability is None else float(fit.chi2_probability), did_fit=did, errors_valid=bool(fit.errors_valid),
                fixed=sorted(fit._fitter.fixed_parameters.keys()))


def parse_report(text):
    out = dict(pars=[], cor=None, warning="WARNING: No fit has been performed" in text)
    lines = text.split("\n")
    i = lines.index(next(l for l in lines if l.strip() == "Model Parameters")) + 3
    while lines[i].strip():
        m = re.fullmatch(r"\s+(\S+) = (.*)", lines[i])
        name, rest = m.group(1), m.group(2).strip()
        rec = dict(name=name, fixed=False, err=None, up=None, down=None)
        if rest.endswith("(fixed)"):
            rec.update(fixed=True, val=rest[:-len("(fixed)")].strip())
        elif "+/-" in rest:
            a, b = rest.split("+/-")
            rec.update(val=a.strip(), err=b.strip())
        elif "(up)" in rest:
            m2 = re.fullmatch(r"(.*) \+ (.*) \(up\) - (.*) \(down\)", rest)
            rec.update(val=m2.group(1), up=m2.group(2), down=m2.group(3))
        else:
            rec.update(val=rest)
        out["pars"].append(rec)
        i += 1
    if any(l.strip() == "Model Parameter Correlations" for l in lines):
        j = lines.index(next(l for l in lines if l.strip() == "Model Parameter Correlations")) + 3
        if "<not available>" in lines[j]:
            out["cor"] = "n/a"
        else:
            j += 2   # header and separator
            rows = []
            while lines[j].strip():
                rows.append(lines[j].split()[1:])
                j += 1
            out["cor"] = rows
    for l in lines:
        m = re.fullmatch(r"\s+(chi2|GoF) / ndf = (%s) / (\d+)(?: = (%s))?" % (NUM, NUM), l)
        if m:
            out.update(gof_name=m.group(1), gof=m.group(2), ndf=int(m.group(3)), gof_per_ndf=m.group(4))
        m = re.fullmatch(r"\s+Cost = (%s)" % NUM, l)
        if m:
            out["cost"] = m.group(1)
        m = re.fullmatch(r"\s+chi2 probability = (%s)" % NUM, l)
        if m:
            out["chi2p"] = m.group(1)
    return out


def check_report(fit, asym):
    s = io.StringIO()
    fit.report(s, asymmetric_parameter_errors=asym)
    text = s.getvalue()
    h = held_state(fit)
    r = parse_report(text)
    bad = []
    if [p["name"] for p in r["pars"]] != h["names"]:
        bad.append(("names", [p["name"] for p in r["pars"]], h["names"]))
    if r["warning"] != (not h["did_fit"]):
        bad.append(("missing or spurious 'no fit performed' warning", r["warning"], h["did_fit"]))
    fx = set(fit_fixed(fit))
    for k, p in enumerate(r["pars"]):
        if p["fixed"] != (p["name"] in fx):
            bad.append(("fixed marker of %s" % p["name"], p["fixed"], sorted(fx)))
        if not near(p["val"], h["values"][k]):
            bad.append(("value of %s" % p["name"], p["val"], h["values"][k]))
        if p["err"] is not None and not near(p["err"], h["errors"][k]):
            bad.append(("uncertainty of %s" % p["name"], p["err"], h["errors"][k]))
        if h["errors_valid"] and not p["fixed"] and p["err"] is None and p["up"] is None and h["errors"][k] not in (None, 0.0):
            bad.append(("uncertainty of %s missing although the results are valid" % p["name"], text, h["errors"][k]))
        if p["up"] is not None:
            a = fit.asymmetric_parameter_errors
            if a is None:       # documented fallback: +- the symmetric uncertainties
                a = [(-v, v) for v in h["errors"]]
            if not near(p["up"], abs(a[k][1])) or not near(p["down"], abs(a[k][0])):
                bad.append(("asymmetric uncertainties of %s" % p["name"], (p["down"], p["up"]), [float(v) for v in a[k]]))
    if isinstance(r["cor"], list):
        for i, row in enumerate(r["cor"]):
            for j, cell in enumerate(row):
                if not near(cell, h["cor"][j][i]):
                    bad.append(("correlation (%d,%d)" % (i, j), cell, float(h["cor"][j][i])))
    if "gof" in r:
        if not near(r["gof"], h["gof"]):
            bad.append(("goodness of fit", r["gof"], h["gof"]))
        if r["ndf"] != h["ndf"]:
            bad.append(("ndf", r["ndf"], h["ndf"]))
        if r["gof_per_ndf"] is not None and not near(r["gof_per_ndf"], h["gof"] / h["ndf"]):
            bad.append(("gof / ndf", r["gof_per_ndf"], h["gof"] / h["ndf"]))
    if "cost" in r and not near(r["cost"], h["cost"]):
        bad.append(("cost", r["cost"], h["cost"]))
    if "gof" not in r and "cost" not in r:
        bad.append(("no cost line in the report", text[-300:], None))
    if "chi2p" in r and not near(r["chi2p"], h["chi2p"]):
        bad.append(("chi2 probability", r["chi2p"], h["chi2p"]))
    return bad, r, h


def fit_fixed(fit):
    return sorted(fit._fitter.fixed_parameters.keys())


def check_result_dict(fit):
    d = fit.get_result_dict()
    h = held_state(fit)
    bad = []
    if d["did_fit"] != h["did_fit"]:
        bad.append(("did_fit", d["did_fit"], h["did_fit"]))
    if d["cost"] != h["cost"] or d["ndf"] != h["ndf"]:
        bad.append(("cost / ndf", (d["cost"], d["ndf"]), (h["cost"], h["ndf"])))
    if (d["goodness_of_fit"] is None) != (h["gof"] is None) or (h["gof"] is not None and float(d["goodness_of_fit"]) != h["gof"]):
        bad.append(("goodness_of_fit", d["goodness_of_fit"], h["gof"]))
    if h["gof"] is not None and abs(d["gof/ndf"] - h["gof"] / h["ndf"]) > 1e-12 * abs(h["gof"]):
        bad.append(("gof/ndf", d["gof/ndf"], h["gof"] / h["ndf"]))
    if (d["chi2_probability"] is None) != (h["chi2p"] is None) or (h["chi2p"] is not None and float(d["chi2_probability"]) != h["chi2p"]):
        bad.append(("chi2_probability", d["chi2_probability"], h["chi2p"]))
    if list(d["parameter_values"].keys()) != h["names"] or [float(v) for v in d["parameter_values"].values()] != h["values"]:
        bad.append(("parameter_values", dict(d["parameter_values"]), h["values"]))
    if h["did_fit"]:
        if [float(v) for v in d["parameter_errors"].values()] != h["errors"]:
            bad.append(("parameter_errors", dict(d["parameter_errors"]), h["errors"]))
        if not np.array_equal(np.asarray(d["parameter_cor_mat"]), h["cor"]):
            bad.append(("parameter_cor_mat", np.asarray(d["parameter_cor_mat"]).tolist(), h["cor"].tolist()))
        if not np.array_equal(np.asarray(d["parameter_cov_mat"]), np.asarray(fit.parameter_cov_mat)):
            bad.append(("parameter_cov_mat", None, None))
    elif d["parameter_errors"] is not None or d["parameter_cov_mat"] is not None:
        bad.append(("uncertainties listed although no fit was performed", d["parameter_errors"], None))
    return bad, h


def check_preface(fit):
    fd, path = tempfile.mkstemp(suffix=".yml", prefix="c17-")
    os.close(fd)
    try:
        # with valid results the asymmetric uncertainties are written too (every other time: computed by to_file itself)
        fit.to_file(path, calculate_asymmetric_errors=bool(fit.did_fit and len(fit.parameter_names) % 2 == 0))
        lines = [l[1:].strip() for l in open(path).read().split("\n") if l.startswith("#")]
    finally:
        os.remove(path)
    h = held_state(fit)
    bad = []
    warn = any("No fit has been performed" in l for l in lines)
    if warn != (not h["did_fit"]):
        bad.append(("missing or spurious 'no fit performed' warning in the preface", warn, h["did_fit"]))
    for l in lines:
        m = re.fullmatch(r"(chi2|GoF): (%s)" % NUM, l)
        if m and not near(m.group(2), h["gof"]):
            bad.append(("preface " + m.group(1), m.group(2), h["gof"]))
        m = re.fullmatch(r"Cost: (%s)" % NUM, l)
        if m and not near(m.group(1), h["cost"]):
            bad.append(("preface cost", m.group(1), h["cost"]))
        m = re.fullmatch(r"ndf: (\d+)", l)
        if m and int(m.group(1)) != h["ndf"]:
            bad.append(("preface ndf", m.group(1), h["ndf"]))
        m = re.fullmatch(r"(chi2|GoF)/ndf: (%s)" % NUM, l)
        if m and not near(m.group(2), h["gof"] / h["ndf"]):
            bad.append(("preface gof/ndf", m.group(2), h["gof"] / h["ndf"]))
    if h["did_fit"]:
        hdr = [k for k, l in enumerate(lines) if l.startswith("Par name")]
        if not hdr:
            bad.append(("no parameter table in the preface", lines, None))
            return bad, h
        head = lines[hdr[0]]
        rows = []
        for l in lines[hdr[0] + 2:]:
            if l.startswith("==="):
                break
            rows.append(l.split())
        asym = "Par err down" in head
        fx = set(fit_fixed(fit))
        if [r[0] for r in rows] != h["names"]:
            bad.append(("preface names", [r[0] for r in rows], h["names"]))
        for k, r in enumerate(rows):
            name = r[0]
            if not near(r[1], h["values"][k]):
                bad.append(("preface value of %s" % name, r[1], h["values"][k]))
            if r[2] == "fixed":
                if name not in fx:
                    bad.append(("preface marks %s as fixed" % name, r, sorted(fx)))
            else:
                if name in fx:
                    bad.append(("preface does not mark %s as fixed" % name, r, sorted(fx)))
                if not near(r[2], h["errors"][k]):
                    bad.append(("preface uncertainty of %s" % name, r[2], h["errors"][k]))
            if asym and r[2] != "fixed":
                cols = [c.strip() for c in re.split(r"\s{2,}", head)]
                held_asym = fit.asymmetric_parameter_errors
                if held_asym is not None:
                    for label, want in (("Par err down", float(held_asym[k][0])), ("Par err up", float(held_asym[k][1]))):
                        cell = r[cols.index(label)]
                        if cell != "N/A" and not near(cell, want):
                            bad.append(("preface '%s' of %s" % (label, name), cell, want))
            cells = r[(5 if asym else 3):]
            for j, cell in enumerate(cells):
                if not near(cell, h["cor"][k][j]):
                    bad.append(("preface correlation (%d,%d)" % (k, j), cell, float(h["cor"][k][j])))
    return bad, h


class Sys:
    def __init__(self, ftype):
        self.ftype = ftype
        self.n_added = 0
        if ftype == "custom":
            from kafe2 import CustomFit
            from .fileio import _custom_cost
            self.fit = CustomFit(_custom_cost)
            self.names = ("a", "b", "c")
            self.pvals = {"a": (1.2, 1.9), "b": (0.4, 1.1), "c": (-0.3, 0.6)}
            return
        self.fit = fl.make_fit(ftype)
        if ftype in ("xy", "xyq", "indexed"):
            fl.add_source(self.fit, ftype, "ey1")
        self.names = fl.PARAMS[ftype]
        self.pvals = fl.PVALS[ftype]

    def step(self, a):
        f = self.fit
        n = a["name"]
        if n == "SetPar":
            nm = self.names[a["p"] - 1]
            f.set_parameter_values(**{nm: self.pvals[nm][a["v"] - 1]})
        elif n == "Fix":
            f.fix_parameter(self.names[a["p"] - 1])
        elif n == "Release":
            f.release_parameter(self.names[a["p"] - 1])
        elif n == "AddError":
            self.n_added += 1
            if self.ftype == "unbinned":
                f.add_parameter_constraint(self.names[0], 2.4, 0.5 + 0.1 * self.n_added)      # unbinned fits have no uncertainties to add
            else:
                fl.add_source(f, self.ftype, "add%d" % self.n_added, dict(fl.SOURCES["ey3"], size=0.1 + 0.05 * self.n_added))
        elif n == "DoFit":
            f.do_fit()
        elif n != "Show":
            raise RuntimeError("adapter: unknown action %r" % n)


def replay_walk(walk, ftype=None):
    warnings.simplefilter("ignore")
    ftype = ftype or walk.get("ftype", "xy")
    sysm = Sys(ftype)
    npars = len(sysm.names)
    issues = []
    for k, e in enumerate(walk["steps"]):
        a = e["a"]
        if any(a.get("p", 1) > npars for _ in (0,)):
            return issues
        sysm.step(a)
        if a["name"] != "Show":
            continue
        kind = a["kind"]
        if kind in ("report", "report_asym"):
            bad, r, h = check_report(sysm.fit, kind == "report_asym")
        elif kind == "result_dict":
            bad, h = check_result_dict(sysm.fit)
        else:
            bad, h = check_preface(sysm.fit)
        if bad:
            what, shown, held = bad[0]
            issues.append(dict(kind="violation", step=k, kf=None, signature="ShownIsCurrent: %s shows another %s than the fit holds [%s]" % (kind, re.sub(r" of \S+| \(\d+,\d+\)", "", what), ftype),
                               detail=dict(what=what, shown=shown, held=held, history=[s["a"] for s in walk["steps"][:k + 1]])))
            return issues
        # the specification's flags against the real object (mechanism drift, not a verdict on the property)
        exp = e["o"]
        if exp["warning"] != (not h["did_fit"]):
            issues.append(dict(kind="drift", step=k, signature="spec says results=%s, fit.did_fit=%s after %s" % (not exp["warning"], h["did_fit"], walk["steps"][k - 1]["a"]["name"] if k else "Init")))
            return issues
    return issues


def replay_xy(w):
    return replay_walk(w, "xy")


def replay_xyq(w):
    return replay_walk(w, "xyq")


def replay_hist(w):
    return replay_walk(w, "hist")


def replay_indexed(w):
    return replay_walk(w, "indexed")


def replay_unbinned(w):
    return replay_walk(w, "unbinned")


def replay_custom(w):
    return replay_walk(w, "custom")


def make_replay(ftype):
    return globals()["replay_" + ftype]
