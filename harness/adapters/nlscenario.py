"""Adapter: NlScenario.tla histories -> real nonlinear fits with the property's own probes (C06)."""
import warnings

import numpy as np


def _exponential(x, A=2.0, tau=1.5):
    return A * np.exp(-x / tau)


def _expoffset(x, A=2.0, tau=1.5, c=0.1):
    return A * np.exp(-x / tau) + c


def _growth(x, a=1.2, b=0.7):
    return a * np.exp(b * x)


def _powerlaw(x, a=1.5, b=1.3):
    return a * x ** b


def _peak(x, A=3.0, mu=2.5, s=0.8):
    return A * np.exp(-0.5 * ((x - mu) / s) ** 2)


def _sinusoid(x, A=1.5, w=1.2, ph=0.4):
    return A * np.sin(w * x + ph)


def _logistic(x, L=4.0, k=1.4, x0=2.5):
    return L / (1.0 + np.exp(-k * (x - x0)))


def _density(x, mu=2.5, sigma=1.0):
    return np.exp(-0.5 * ((x - mu) / sigma) ** 2) / np.sqrt(2.0 * np.pi * sigma ** 2)


FAMILIES = {
    # steep model, x uncertainties dominate, start values away from the optimum: the iterative treatment needs several passes
    "growth": dict(f=_growth, x=(0.0, 3.0, 12), truth=(1.0, 0.9), names=("a", "b"), noise=0.05, xnoise=0.25, rng=6),
    "expoffset": dict(f=_expoffset, x=(0.2, 6.0, 13), truth=(2.0, 1.5, -0.2), names=("A", "tau", "c"), noise=0.05),
    "exponential": dict(f=_exponential, x=(0.2, 5.0, 11), truth=(2.0, 1.5), names=("A", "tau"), noise=0.05),
    "powerlaw": dict(f=_powerlaw, x=(1.0, 6.0, 10), truth=(1.5, 1.3), names=("a", "b"), noise=0.25),
    "peak": dict(f=_peak, x=(0.0, 5.0, 13), truth=(3.0, 2.5, 0.8), names=("A", "mu", "s"), noise=0.08),
    "sinusoid": dict(f=_sinusoid, x=(0.0, 6.0, 14), truth=(1.5, 1.2, 0.4), names=("A", "w", "ph"), noise=0.06),
    "logistic": dict(f=_logistic, x=(0.0, 5.5, 12), truth=(4.0, 1.4, 2.5), names=("L", "k", "x0"), noise=0.08),
}
SAMPLE = np.array([0.6, 1.1, 1.4, 1.6, 1.8, 1.9, 2.0, 2.1, 2.2, 2.3, 2.35, 2.4, 2.45, 2.5, 2.55, 2.6, 2.65, 2.7, 2.8, 2.9, 3.0, 3.1, 3.2, 3.3, 3.5,
                   3.7, 3.9, 4.2, 4.5, 1.3, 2.25, 2.75, 3.05, 1.95, 2.15, 2.85, 3.4, 1.7, 2.6, 2.4])


def make_fit(cfg, backend):
    from kafe2 import HistContainer, HistFit, UnbinnedFit, XYFit
    warnings.simplefilter("ignore")
    fam = cfg["family"]
    if fam == "histpeak":
        fit = HistFit(HistContainer(8, (0.0, 5.0), fill_data=list(SAMPLE)), _density, minimizer=backend)
        names, truth = ("mu", "sigma"), (2.5, 0.85)
    elif fam == "unbinned":
        fit = UnbinnedFit(list(SAMPLE), _density, minimizer=backend)
        names, truth = ("mu", "sigma"), (2.5, 0.85)
    else:
        F = FAMILIES[fam]
        x = np.linspace(*F["x"])
        if "xnoise" in F:
            g = np.random.default_rng(F["rng"])
            xt = x
            x = xt + g.normal(0, F["xnoise"], len(xt))
            y = F["f"](xt, *F["truth"]) + g.normal(0, F["noise"], len(xt))
        else:
            rng = np.random.RandomState(sum(map(ord, fam)))
            y = F["f"](x, *F["truth"]) + rng.normal(0.0, F["noise"], len(x))
        fit = XYFit([x, y], F["f"], minimizer=backend, dynamic_error_algorithm=cfg["dea"])
        fit.add_error("y", F["noise"], name="ey")
        if cfg["errors"] in ("xy", "xymodelrel"):
            # sizeable x uncertainties for the iterative treatment: the iteration has to do several passes before it is a fixed point
            fit.add_error("x", F.get("xnoise", 0.2 if cfg["dea"] == "iterative" else 0.04), name="ex")
        if cfg["errors"] == "xmodel":
            fit.add_error("x", 0.2, reference="model", name="exm")     # x uncertainty declared on the model only
        if cfg["errors"] in ("ymodelrel", "xymodelrel"):
            fit.add_error("y", 0.03, relative=True, reference="model", name="emr")
        names, truth = F["names"], F["truth"]
    lims = {}
    if cfg["fixed"]:
        j = cfg["fixed"] - 1
        # the offset of the exponential is fixed at exactly 0 (an integer), everything else near its true value
        fit.fix_parameter(names[j], 0 if (cfg["family"] == "expoffset" and j == 2) else truth[j] * 1.03)
    if cfg["limited"]:
        j = cfg["limited"] - 1
        if cfg["limit"] == "inside":
            lo, hi = truth[j] - 0.8 * abs(truth[j]), truth[j] + 0.8 * abs(truth[j])
        elif cfg["limit"] == "zero":
            lo, hi = 0, 1.0                                             # a limit of exactly zero; the unconstrained optimum is negative
            fit.set_parameter_values(**{names[j]: 0.1})
        else:
            lo, hi = truth[j] - 0.8 * abs(truth[j]), truth[j] * 0.97       # the unconstrained optimum lies above: the limit is active
            fit.set_parameter_values(**{names[j]: truth[j] * 0.9})
        fit.limit_parameter(names[j], lo, hi)
        lims[names[j]] = (lo, hi)
    return fit, names, truth, lims


def cost_at(cfg, backend, point):
    fit, names, truth, lims = make_fit(cfg, backend)
    fit.set_all_parameter_values([float(v) for v in point])
    return float(fit.cost_function_value)


def replay_walk(walk):
    warnings.simplefilter("ignore")
    cfg = walk["first"]["cfg"]
    backend = walk.get("backend", "iminuit")
    other = "scipy" if backend == "iminuit" else "iminuit"
    fit, names, truth, lims = make_fit(cfg, backend)
    issues = []
    tag = "[%s/%s/%s/%s]" % (cfg["family"], cfg["errors"], cfg["dea"], backend)

    def viol(k, sig, detail):
        kf = None
        if cfg["limited"] and (backend == "scipy" or sig.startswith("BackendsAgree")) \
                and (sig.startswith("LocalMinimum") or sig.startswith("BackendsAgree") or sig.startswith("FixedPoint")):
            kf = "KF-C06-SCIPY-BOUNDS"
        issues.append(dict(kind="violation", step=k, kf=kf, signature="%s %s" % (sig, tag), detail=dict(cfg=cfg, **detail)))

    fixed_val = None
    if cfg["fixed"]:
        j = cfg["fixed"] - 1
        fixed_val = 0.0 if (cfg["family"] == "expoffset" and j == 2) else float(truth[j] * 1.03)       # the REQUESTED value
    state = {}

    def bookkeeping(k):
        pv = np.array(fit.parameter_values, dtype=float)
        if fixed_val is not None and pv[cfg["fixed"] - 1] != fixed_val:
            viol(k, "FixedUntouched: fixed parameter changed", dict(expected=fixed_val, actual=float(pv[cfg["fixed"] - 1])))
            return False
        for nm, (lo, hi) in lims.items():
            v = pv[list(names).index(nm)]
            if v < lo - 1e-9 * max(1.0, abs(lo)) or v > hi + 1e-9 * max(1.0, abs(hi)):
                viol(k, "WithinLimits: limited parameter outside its closed limits", dict(parameter=nm, limits=(lo, hi), value=float(v)))
                return False
        return True

    for k, e in enumerate(walk["steps"]):
        a = e["a"]
        if a["name"] in ("DoFit", "Refit"):
            before = np.array(fit.parameter_values, dtype=float)
            fit.do_fit()
            pv = np.array(fit.parameter_values, dtype=float)
            pe = np.array(fit.parameter_errors, dtype=float)
            sig = np.where(pe > 0, pe, 1e-3 * np.maximum(np.abs(pv), 1e-3))
            # the fixed-point clause is what the statement promises for the ITERATIVE treatment; with the nonlinear one a second fit is only
            # required to stay within the minimiser's reach (0.1 sigma)
            lim_fp = 0.05 if cfg["dea"] == "iterative" else 0.1
            if a["name"] == "Refit" and np.any(np.abs(pv - before) > lim_fp * sig + 1e-9):
                viol(k, "FixedPoint: a second do_fit moved the optimum", dict(first=before.tolist(), second=pv.tolist(), sigma=sig.tolist()))
                return issues
            state.update(pv=pv, sig=sig)
            if not bookkeeping(k):
                return issues
        elif a["name"] == "ProbeNeighbour":
            if cfg["dea"] == "iterative":
                continue        # the iterative treatment promises a fixed point (Refit), not a minimum of the full cost
            j = a["j"] - 1
            p = state["pv"].copy()
            p[j] += (0.5 if a["side"] == "+" else -0.5) * state["sig"][j]
            nm = names[j]
            if nm in lims:
                p[j] = min(max(p[j], lims[nm][0]), lims[nm][1])
            c0 = cost_at(cfg, backend, state["pv"])
            c1 = cost_at(cfg, backend, p)
            if np.isfinite(c1) and c1 < c0 - 1e-3 * max(1.0, abs(c0)):
                viol(k, "LocalMinimum: a neighbouring point within the limits has a lower full cost than the reported optimum",
                     dict(parameter=nm, optimum=state["pv"].tolist(), neighbour=p.tolist(), cost_optimum=c0, cost_neighbour=c1))
                return issues
            reported = float(fit.cost_function_value)
            if abs(reported - c0) > 1e-6 * max(1.0, abs(c0)) + 1e-9:
                viol(k, "reported minimum differs from the full cost evaluated at the reported optimum", dict(reported=reported, evaluated=c0))
                return issues
        elif a["name"] == "CrossBackend":
            f2, _, _, _ = make_fit(cfg, other)
            f2.do_fit()
            p2 = np.array(f2.parameter_values, dtype=float)
            if np.any(np.abs(p2 - state["pv"]) > 0.1 * state["sig"] + 1e-7):
                viol(k, "BackendsAgree: the two backends report different optima", dict(this=state["pv"].tolist(), other=p2.tolist(), sigma=state["sig"].tolist()))
                return issues
    return issues


def replay_walk_scipy(walk):
    w = dict(walk)
    w["backend"] = "scipy"
    return replay_walk(w)
