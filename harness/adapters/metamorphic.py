"""C15: metamorphic pairs of real fits (point order, parameter order, unit of y)."""
import warnings

import numpy as np

from .scenario import basis_fn


def _model_src(kind, order):
    """Return (function, names) for model `kind` with parameter list in `order` (a permutation of the canonical names)."""
    ns = {"np": np}
    if kind == "exp":      # y = A * exp(-k x) + c
        body = "A * np.exp(-k * x) + c"
        names = ["A", "k", "c"]
        defaults = {"A": 2.0, "k": 0.5, "c": 0.1}
    elif kind == "line":
        body = "a * x + b"
        names = ["a", "b"]
        defaults = {"a": 1.0, "b": 1.0}
    elif kind == "quad":
        body = "a * x ** 2 + b * x + c"
        names = ["a", "b", "c"]
        defaults = {"a": 0.5, "b": 0.2, "c": 1.0}
    elif kind == "sine":    # several local minima: the start values matter
        body = "a * np.sin(w * x + phi) + c"
        names = ["a", "w", "phi", "c"]
        defaults = {"a": 1.5, "w": 1.2, "phi": 0.2, "c": 0.5}
    else:
        raise ValueError(kind)
    ordered = [names[i] for i in order]
    exec("def model(x, %s):\n    return %s\n" % (", ".join("%s=%r" % (n, defaults[n]) for n in ordered), body), ns)
    return ns["model"], ordered, names


DATA = {
    "exp": (np.array([0.0, 0.5, 1.0, 1.5, 2.0, 2.5, 3.0, 3.5]), np.array([2.15, 1.68, 1.28, 1.05, 0.81, 0.68, 0.51, 0.47])),
    "line": (np.array([1.0, 2.0, 3.0, 4.0, 5.0]), np.array([2.3, 4.2, 7.5, 9.4, 11.1])),
    "quad": (np.array([0.0, 1.0, 2.0, 3.0, 4.0, 5.0]), np.array([1.1, 1.7, 3.4, 6.2, 10.8, 16.1])),
}
_XS = np.linspace(0.0, 12.0, 30)
DATA["sine"] = (_XS, 2.0 * np.sin(1.3 * _XS + 0.4) + 0.5 + np.random.RandomState(151).normal(0, 0.25, 30))
UNIT_OF_Y = {"sine": {"a": 1, "w": 0, "phi": 0, "c": 1}, "exp": {"A": 1, "k": 0, "c": 1}, "line": {"a": 1, "b": 1}, "quad": {"a": 1, "b": 1, "c": 1}}


def build(job, perm=None, order=None, scale=1.0):
    from kafe2 import XYFit
    kind = job["kind"]
    x, y = DATA[kind]
    n = len(x)
    perm = list(range(n)) if perm is None else perm
    names_n = len(UNIT_OF_Y[kind])
    order = list(range(names_n)) if order is None else order
    model, ordered, canon = _model_src(kind, order)
    fit = XYFit([x[perm], y[perm] * scale], model, minimizer=job["backend"])
    sig = np.linspace(0.04, 0.09, n) if kind != "sine" else np.full(n, 0.25)
    fit.add_error("y", sig[perm] * scale, name="pt")
    if job["matrix"]:
        cor = np.fromfunction(lambda i, j: 0.6 ** np.abs(i - j), (n, n))
        cov = cor * 0.03 ** 2
        fit.add_matrix_error("y", cov[np.ix_(perm, perm)] * scale ** 2, "cov", name="mat")
    if job["relative"]:
        fit.add_error("y", 0.02, relative=True, name="rel")          # relative: scales with y by itself
    if job["xerr"]:
        fit.add_error("x", np.linspace(0.02, 0.03, n)[perm], name="xe")
    u = UNIT_OF_Y[kind]
    if job["fix"] is not None:
        nm = canon[job["fix"]]
        v = {"A": 2.0, "k": 0.45, "c": 0.1 if kind != "sine" else 0.5, "a": 1.0, "b": 1.0}.get(nm, 1.0)
        fit.fix_parameter(nm, v * (scale if u[nm] else 1.0))
    if job["limit"] is not None:
        nm = canon[job["limit"]]
        fit.limit_parameter(nm, -50.0 * (scale if u[nm] else 1.0), 50.0 * (scale if u[nm] else 1.0))
    if job["constrain"] is not None:
        nm = canon[job["constrain"]]
        v = {"A": 2.1, "k": 0.5, "c": 0.2, "a": 2.0, "b": 0.3}.get(nm, 1.0)
        s = scale if u[nm] else 1.0
        fit.add_parameter_constraint(nm, v * s, 0.3 * s)
    # start values in the new unit
    start = {}
    for nm in canon:
        if job["fix"] is not None and nm == canon[job["fix"]]:
            continue
        dv = fit.parameter_name_value_dict[nm]
        start[nm] = dv * (scale if u[nm] else 1.0)
    fit.set_parameter_values(**start)
    return fit, ordered, canon


def results(fit, canon):
    fit.do_fit()
    names = list(fit.parameter_names)
    idx = [names.index(n) for n in canon]
    pv = np.array(fit.parameter_values, dtype=float)[idx]
    pe = np.array(fit.parameter_errors, dtype=float)[idx]
    pc = np.asarray(fit.parameter_cov_mat, dtype=float)[np.ix_(idx, idx)]
    logdet = float(fit._nexus.get("total_cov_mat_log_determinant").value)
    return dict(pv=pv, pe=pe, pc=pc, cost=float(fit.cost_function_value), chi2=float(fit.cost_function_value) - logdet,
                gof=float(fit.goodness_of_fit), ndf=int(fit.ndf), chi2p=float(fit.chi2_probability))


def compare(base, other, factor, label, job):
    sd = np.where(base["pe"] > 0, base["pe"], 1.0)
    out = []

    def v(sig, detail):
        kf = "KF-C15-SCIPY-SMALL-UNITS" if (job["backend"] == "scipy" and label.startswith("UnitOfY") and abs(job["scale_exp"]) >= 6) else None
        if kf is None and job["backend"] == "scipy" and label.startswith("UnitOfY") and job["limit"] is not None:
            kf = "KF-C15-SCIPY-LIMITED-UNITS"
        out.append(dict(kind="violation", step=0, kf=kf, signature="%s: %s [%s/%s]" % (label, sig, job["kind"], job["backend"]), detail=dict(job=job, **detail)))

    f = np.asarray(factor, dtype=float)
    if np.any(np.abs(other["pv"] / f - base["pv"]) > 0.03 * sd + 1e-9):
        v("optimum not transformed accordingly", dict(base=base["pv"].tolist(), other=(other["pv"] / f).tolist(), sigma=sd.tolist()))
    elif not np.allclose(other["pe"] / f, base["pe"], rtol=0.04, atol=1e-9):
        v("parameter uncertainties not transformed accordingly", dict(base=base["pe"].tolist(), other=(other["pe"] / f).tolist()))
    elif not np.allclose(other["pc"] / np.outer(f, f), base["pc"], rtol=0.06, atol=2e-3 * float(np.max(np.abs(base["pc"])))):
        v("parameter covariance not transformed accordingly", dict(base=base["pc"].tolist(), other=(other["pc"] / np.outer(f, f)).tolist()))
    elif abs(other["chi2"] - base["chi2"]) > 2e-3 * max(1.0, abs(base["chi2"])):
        v("chi2 changed", dict(base=base["chi2"], other=other["chi2"]))
    elif abs(other["gof"] - base["gof"]) > 2e-3 * max(1.0, abs(base["gof"])):
        v("goodness of fit changed", dict(base=base["gof"], other=other["gof"]))
    elif other["ndf"] != base["ndf"]:
        v("ndf changed", dict(base=base["ndf"], other=other["ndf"]))
    elif abs(other["chi2p"] - base["chi2p"]) > 2e-3 + 0.01 * base["chi2p"]:
        v("chi2 probability changed", dict(base=base["chi2p"], other=other["chi2p"]))
    return out


def replay_job(job):
    warnings.simplefilter("ignore")
    rng = np.random.RandomState(job["seed"])
    kind = job["kind"]
    n = len(DATA[kind][0])
    npar = len(UNIT_OF_Y[kind])
    fit, ordered, canon = build(job)
    base = results(fit, canon)
    issues = []
    # points permuted together with their uncertainties and covariance rows / columns
    perm = list(rng.permutation(n))
    f2, _, _ = build(job, perm=perm)
    issues += compare(base, results(f2, canon), np.ones(npar), "PointOrder", job)
    if issues:
        return issues
    # the model's parameter list reordered (fixed / limited / constrained subsets follow by name)
    order = list(rng.permutation(npar))
    if order == list(range(npar)):
        order = order[::-1]
    orders = [order]
    if job["fix"] is not None:      # the fixed parameter in front of, between and behind the free ones
        fx = job["fix"]
        rest = [j for j in range(npar) if j != fx]
        orders += [[fx] + rest, rest[:1] + [fx] + rest[1:], rest[::-1] + [fx]]
    for order in orders:
        if order == list(range(npar)):
            continue
        f3, _, _ = build(job, order=[int(j) for j in order])
        issues += compare(base, results(f3, canon), np.ones(npar), "ParameterOrder", job)
        if issues:
            return issues
    # y in another unit
    k = job["scale_exp"]
    scale = 10.0 ** k
    f4, _, _ = build(job, scale=scale)
    factor = [scale if UNIT_OF_Y[kind][nm] else 1.0 for nm in canon]
    issues += compare(base, results(f4, canon), factor, "UnitOfY(10^%d)" % k, job)
    return issues
