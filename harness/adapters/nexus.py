"""Adapter binding Nexus.tla actions to the real kafe2.core.fitters.nexus objects.

Values are terms.  `T` mirrors the spec's <<tag, <<sub-terms>>>>; user functions build terms, count their
calls, and read the node's dependency-only children through a closure (the declared hidden inputs).
"""
import operator

from kafe2.core.fitters import nexus as nx


class T(object):
    __slots__ = ("tag", "args")

    def __init__(self, tag, args=()):
        self.tag, self.args = tag, tuple(args)

    def __eq__(self, other):
        return isinstance(other, T) and self.tag == other.tag and self.args == other.args

    def __ne__(self, other):
        return not self.__eq__(other)

    def __hash__(self):
        return hash((self.tag, self.args))

    # operator-built expressions (shape "ops"): like Python numbers, refuse None
    def __add__(self, other):
        if other is None:
            raise TypeError("unsupported operand: None")
        return T("add", (self, other))

    def __radd__(self, other):
        if other is None:
            raise TypeError("unsupported operand: None")
        return T("add", (other, self))

    def __neg__(self):
        return T("neg", (self,))

    def __repr__(self):
        return "T(%r,%r)" % (self.tag, self.args)


def to_json(v):
    if v is None:
        return ["None", []]
    if isinstance(v, T):
        return [v.tag, [to_json(a) for a in v.args]]
    if isinstance(v, tuple):
        return ["tup", [to_json(a) for a in v]]
    return ["?" + repr(v), []]


OPSYMS = ("add", "neg")


class NexusAdapter(object):
    def __init__(self, init, warm):
        self.calls = []
        self.nodes = {}
        self.nexus = nx.Nexus()
        kind, children, params, fsym = init["kind"], init["children"], init["params"], init["fsym"]
        live = [n for n in sorted(kind) if kind[n] != "none"]
        done = set()
        # topological construction
        while len(done) < len(live):
            progressed = False
            for n in live:
                if n in done or any(c not in done for c in children[n]):
                    continue
                k = kind[n]
                ch = [self.nodes[c] for c in children[n]]
                if k == "param":
                    node = nx.Parameter(T("0"), name=n)
                elif k == "empty":
                    node = nx.Empty(name=n)
                elif k == "alias":
                    node = nx.Alias(ch[0], name=n)
                elif k == "tuple":
                    node = nx.Tuple(ch, name=n)
                elif k == "fallback":
                    node = nx.Fallback(ch, name=n)
                elif k == "func":
                    pars = [self.nodes[c] for c in params[n]]
                    if fsym[n] == "add":
                        node = pars[0] + pars[1]          # operator-built expression
                        node.name = n
                        node.func = self._wrap(n, "add", node.func)
                    elif fsym[n] == "neg":
                        node = -pars[0]
                        node.name = n
                        node.func = self._wrap(n, "neg", node.func)
                    else:
                        node = nx.Function(self._wrap(n, fsym[n], None), name=n, parameters=pars)
                else:
                    raise RuntimeError("unknown kind %r" % k)
                self.nodes[n] = node
                done.add(n)
                progressed = True
            if not progressed:
                raise RuntimeError("cyclic shape")
        for n in live:
            self.nexus.add(self.nodes[n], existing_behavior="ignore")
        # dependency-only children
        for n in live:
            if kind[n] == "func":
                for c in children[n]:
                    if c not in params[n]:
                        self.nexus.add_dependency(n, c)
        if warm:
            for n in live:
                try:
                    self.nodes[n].value
                except Exception:
                    pass
        self.calls = []

    def _wrap(self, nid, sym, base):
        adapter = self

        def f(*args):
            node = adapter.nodes[nid]
            pars = node.parameters
            hidden = tuple(c.value for c in node.get_children() if not any(c is p for p in pars))
            rec = [nid, "raise"]
            adapter.calls.append(rec)
            allargs = tuple(args) + hidden
            if sym in OPSYMS:
                if any(a is None for a in allargs):
                    raise TypeError("operator on None")
                v = base(*args) if base is not None else T(sym, args)
                v = T(v.tag, v.args + hidden)
            elif sym == "P" and len(allargs) > 0 and allargs[0] == T("0"):
                raise ZeroDivisionError("partial function undefined here")
            else:
                v = T(sym, allargs)
            rec[1] = "ok"
            return v

        f.__name__ = "f_" + nid
        return f

    # ------------------------------------------------------------------
    def step(self, a):
        """Execute one spec action on the real objects; return the observation as the spec writes it."""
        name = a["name"]
        N = self.nodes
        self.calls = []
        try:
            if name == "SetValue":
                N[a["n"]].value = T(a["v"])
            elif name == "Read":
                try:
                    v = N[a["n"]].value
                except RecursionError:
                    raise
                except Exception:
                    return {"kind": "raise", "calls": [list(c) for c in self.calls]}
                return {"kind": "value", "value": to_json(v), "calls": [list(c) for c in self.calls]}
            elif name == "Mark":
                N[a["n"]].mark_for_update()
            elif name == "Freeze":
                N[a["n"]].freeze()
            elif name == "Unfreeze":
                N[a["n"]].unfreeze()
            elif name == "SetFunc":
                N[a["n"]].func = self._wrap(a["n"], a["g"], None)
            elif name == "AddDependency":
                self.nexus.add_dependency(a["n"], a["m"])
            elif name == "AddDependencyPair":
                self.nexus.add_dependency(a["n"], [a["m1"], a["m2"]])
            elif name == "AddDependencyUnknown":
                self.nexus.add_dependency(a["n"], "no_such_node")
            elif name == "ReplaceChild":
                N[a["n"]].replace_child(N[a["cur"]], N[a["new"]])
            elif name == "RemoveDependency":
                N[a["n"]].remove_child(N[a["m"]])
            elif name == "TupleSetItem":
                N[a["n"]][a["i"] - 1] = N[a["m"]]
            elif name == "Replace":
                N[a["n"]].replace(N[a["m"]])
            else:
                raise RuntimeError("adapter: unknown action %r" % name)
        except RuntimeError:
            raise
        except Exception as exc:
            return {"kind": "reject", "exc": type(exc).__name__}
        return {"kind": "none"}

    def flags(self):
        st = sorted(n for n, node in self.nodes.items() if node.stale)
        fr = sorted(n for n, node in self.nodes.items() if node.frozen)
        return st, fr


def replay_walk(walk):
    """walk: dict(shape=..., init=..., steps=[edge dicts with a, o, ideal, kf, tb, stale, frozen]).
    Returns list of issues: dicts(kind=violation|drift, signature, detail, step, kf)."""
    issues = []
    ad = NexusAdapter(walk["init"], walk["shape"]["warm"])
    for k, e in enumerate(walk["steps"]):
        a, exp = e["a"], e["o"]
        try:
            got = ad.step(a)
        except RecursionError as exc:
            issues.append(dict(kind="violation", step=k, kf=None,
                               signature="%s: RecursionError (graph left cyclic)" % a["name"], detail=repr(exc)[:200]))
            break
        if a["name"] == "Read":
            ideal = e["idealAll"][a["n"]]
            kfs = ["KF-C04-FALLBACK"] if a["n"] in e["kfAll"] else []
            real_val = got.get("value") if got["kind"] == "value" else ["RAISE", []]
            if real_val != ideal:
                issues.append(dict(kind="violation", step=k, kf=(kfs[0] if kfs else None),
                                   signature="ReadCorrect: Read(%s) in shape %s" % (kind_of(walk, a["n"]), walk["shape"]["id"]),
                                   detail=dict(expected=ideal, actual=real_val)))
                break
            calls = got["calls"]
            ok = [c[0] for c in calls if c[1] == "ok"]
            if len(ok) != len(set(ok)):
                issues.append(dict(kind="violation", step=k, kf=None, signature="AtMostOncePerRead: %s" % a["name"],
                                   detail=dict(calls=calls)))
                break
            spurious = [c[0] for c in calls if c[0] not in e["tb"]]
            if spurious:
                issues.append(dict(kind="violation", step=k, kf=None,
                                   signature="NoSpuriousRecompute: function re-evaluated although no input was assigned",
                                   detail=dict(calls=calls, pending=e["tb"])))
                break
            if calls != exp.get("calls") or got["kind"] != exp["kind"]:
                issues.append(dict(kind="drift", step=k, signature="Read mechanism: calls %s vs spec %s" % (calls, exp.get("calls"))))
        else:
            if exp["kind"] == "reject" and got["kind"] != "reject":
                issues.append(dict(kind="violation", step=k, kf=None,
                                   signature="Rejected: %s was accepted" % a["name"], detail=dict(action=a)))
                break
            if exp["kind"] != "reject" and got["kind"] == "reject":
                issues.append(dict(kind="drift", step=k, signature="%s raised %s but the model accepts it" % (a["name"], got.get("exc"))))
                break
        st, fr = ad.flags()
        if fr != sorted(e["frozen"]) or st != sorted(e["stale"]):
            issues.append(dict(kind="drift", step=k, signature="flags after %s: stale %s/%s frozen %s/%s" % (
                a["name"], st, sorted(e["stale"]), fr, sorted(e["frozen"]))))
            break
    # final probe: read every node; reads do not change the definition, so the ideal values of the last
    # matched state stay valid while we read.  (Turns a mechanism drift into a property-level verdict.)
    if walk["steps"] and not any(i["kind"] == "violation" for i in issues):
        k = min(len(walk["steps"]) - 1, issues[-1]["step"] if issues else len(walk["steps"]) - 1)
        e = walk["steps"][k]
        for n in sorted(ad.nodes):
            try:
                v = to_json(ad.nodes[n].value)
            except RecursionError as exc:
                v = ["RECURSION", []]
            except Exception:
                v = ["RAISE", []]
            if v != e["idealAll"][n]:
                issues.append(dict(kind="violation", step=k, kf=("KF-C04-FALLBACK" if n in e["kfAll"] else None),
                                   signature="ReadCorrect: final Read(%s) in shape %s after %s" % (
                                       kind_of(walk, n), walk["shape"]["id"], e["a"]["name"]),
                                   detail=dict(node=n, expected=e["idealAll"][n], actual=v)))
                break
    return issues


def kind_of(walk, n):
    return walk["init"]["kind"].get(n, "?")
