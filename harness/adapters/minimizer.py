"""Adapter: Minimizer.tla histories -> real fits (both backends); the oracle is the property's own:
snapshot before the query, compare after ("unchanged up to the minimizer tolerance"; same question, same answer)."""
import io
import os
import tempfile
import warnings

import numpy as np

from .. import fitlib as fl

PMAP = {"a": "a", "b": "b", "c": "c"}


def snapshot(fit):
    mini = fit._fitter.minimizer
    return dict(pv=np.array(fit.parameter_values, dtype=float), bv=np.array(mini.parameter_values, dtype=float),
                cost=float(fit.cost_function_value), perr=np.array(fit.parameter_errors, dtype=float), did=bool(fit.did_fit),
                fixed=sorted(fit._fitter.fixed_parameters), limited=sorted(fit._fitter.limited_parameters))


def moved(before, after, sigma):
    s = np.where(sigma > 0, sigma, 1.0)
    if np.any(np.abs(after["pv"] - before["pv"]) > 0.02 * s + 1e-9):
        return "parameter values moved: %s -> %s (sigma %s)" % (before["pv"], after["pv"], sigma)
    if np.any(np.abs(after["bv"] - after["pv"]) > 0.02 * s + 1e-9):
        return "minimizer and model parameter values differ: backend %s vs nexus %s" % (after["bv"], after["pv"])
    if abs(after["cost"] - before["cost"]) > 1e-3 * max(1.0, abs(before["cost"])):
        return "cost changed: %r -> %r" % (before["cost"], after["cost"])
    if not np.allclose(after["perr"], before["perr"], rtol=0.05, atol=1e-9):
        return "symmetric uncertainties changed: %s -> %s" % (before["perr"], after["perr"])
    if after["did"] != before["did"]:
        return "did_fit changed: %s -> %s" % (before["did"], after["did"])
    if after["fixed"] != before["fixed"] or after["limited"] != before["limited"]:
        return "fixed / limited sets changed"
    return None


def run_query(fit, backend, a, thorough=False):
    q, p = a["q"], a["p"]
    if q == "cov":
        return dict(cov=np.array(fit.parameter_cov_mat), cor=np.array(fit.parameter_cor_mat), err=np.array(fit.parameter_errors))
    if q == "asym":
        r = fit.asymmetric_parameter_errors
        return dict(asym=None if r is None else np.array(r))
    if q == "profile":
        kw = {}
        if a["bounded"] == "cl":
            kw = dict(cl=0.9)
        elif a["bounded"] == "lowhigh":
            i = list(fit.parameter_names).index(p)
            v, s_ = float(fit.parameter_values[i]), float(fit.parameter_errors[i])
            kw = dict(low=v - 2.0 * s_, high=v + 2.0 * s_)
        if not kw:      # the public route
            from kafe2.fit.tools.contours_profiler import ContoursProfiler
            prof = ContoursProfiler(fit, profile_points=7, profile_subtract_min=False).get_profile(p)
            return dict(profile=np.array(prof))
        prof, arrows = fit._fitter.profile(p, size=7, **kw)
        return dict(profile=np.array(prof))
    if q == "contour":
        free = [n for n in fit.parameter_names if n not in fit._fitter.fixed_parameters]
        kw = dict(numpoints=12) if backend == "iminuit" else dict(algorithm="heuristic_grid", iterations=2)
        c = fit._fitter.contour(free[0], free[1], sigma=1.0, **kw)
        return dict(contour_found=c is not None)
    if q == "read":
        buf = io.StringIO()
        fit.report(output_stream=buf)
        d = fit.get_result_dict()
        with tempfile.NamedTemporaryFile(suffix=".yml", dir=os.environ.get("VERIF_TMP", None)) as f:
            fit.to_file(f.name)
        # a plot of the fit (rendered headless)
        import matplotlib.pyplot as plt
        from kafe2 import Plot
        try:
            Plot(fit).plot()
        finally:
            plt.close("all")
        return dict(report_len=len(buf.getvalue()) > 0, cost=d["cost"])
    raise RuntimeError("adapter: unknown query %r" % q)


def same_answer(r1, r2):
    for k in r1:
        a, b = r1[k], r2[k]
        if a is None or b is None:
            if a is not b and not (a is None and b is None):
                return "%s: %r vs %r" % (k, a, b)
            continue
        if k == "profile" and isinstance(a, np.ndarray) and a.shape == b.shape and a.ndim == 2:
            # the scanned range is value +- k sigma with the CURRENT error estimate, which fluctuates at the per-cent level between
            # re-minimisations: compare the grids within 5 % of their span and the cost values within 0.25 (errordef units)
            span = max(float(np.ptp(a[0])), 1e-12)
            if np.max(np.abs(a[0] - b[0])) > 0.05 * span or not np.allclose(a[1], b[1], rtol=0.05, atol=0.25):
                return "%s: %s vs %s" % (k, np.array2string(a.ravel()[:6], precision=5), np.array2string(b.ravel()[:6], precision=5))
            continue
        if isinstance(a, np.ndarray):
            if a.shape != b.shape or not np.allclose(a, b, rtol=0.03, atol=2e-3, equal_nan=True):
                return "%s: %s vs %s" % (k, np.array2string(a.ravel()[:6], precision=5), np.array2string(b.ravel()[:6], precision=5))
        elif isinstance(a, float):
            if abs(a - b) > 1e-3 * max(1.0, abs(a)):
                return "%s: %r vs %r" % (k, a, b)
    return None


def replay_walk(walk):
    warnings.simplefilter("ignore")
    backend = walk["first"]["backend"]
    fit = fl.make_fit("xyq", minimizer=backend)
    fl.add_source(fit, "xyq", "ey1")
    issues, answers = [], {}
    sig = None

    def viol(k, s, detail):
        issues.append(dict(kind="violation", step=k, kf=None, signature="%s [%s]" % (s, backend), detail=detail))

    for k, e in enumerate(walk["steps"]):
        a = e["a"]
        name = a["name"]
        if name == "DoFit":
            fit.do_fit()
            answers = {}
        elif name == "SetPar":
            p = a["p"]
            fit.set_parameter_values(**{p: fl.PVALS["xyq"][p][1]})
            answers = {}
        elif name == "FixPar":
            fit.fix_parameter(a["p"])
            answers = {}
        elif name == "ReleasePar":
            fit.release_parameter(a["p"])
            answers = {}
        elif name == "LimitPar":
            v = fl.PVALS["xyq"][a["p"]]
            fit.limit_parameter(a["p"], min(v) - 5.0, max(v) + 5.0)
            answers = {}
        elif name == "Query":
            before = snapshot(fit)
            sigma = before["perr"]
            try:
                res = run_query(fit, backend, a)
            except Exception as exc:
                viol(k, "query %s raised %s" % (a["q"], type(exc).__name__), dict(action=a, exc=str(exc)[:300]))
                return issues
            after = snapshot(fit)
            d = moved(before, after, sigma)
            if d:
                viol(k, "QueryDoesNotMove: %s%s" % (a["q"], (" (%s)" % a["bounded"]) if a.get("bounded") not in (None, "no") else ""), dict(action=a, moved=d))
                # known finding: iminuit re-runs MIGRAD after a contour / profile; only the symmetric uncertainties change, by a few percent
                if backend == "iminuit" and a["q"] in ("contour", "profile") and d.startswith("symmetric uncertainties changed") \
                        and np.allclose(after["perr"], before["perr"], rtol=0.15, atol=1e-9):
                    issues[-1]["kf"] = "KF-C08-IMINUIT-ERRORS-AFTER-QUERY"
                return issues
            key = (a["q"], a["p"], a.get("bounded"))
            if key in answers:
                d = same_answer(answers[key], res)
                if d:
                    viol(k, "SameQuestionSameAnswer: %s" % a["q"], dict(action=a, difference=d))
                    return issues
            answers[key] = res
            # the specification's bookkeeping
            if after["fixed"] != sorted(e["fixed"]):
                viol(k, "fixed set differs from the specification", dict(expected=sorted(e["fixed"]), actual=after["fixed"]))
                return issues
        else:
            raise RuntimeError("adapter: unknown action %r" % name)
        # user-fixed parameters keep exactly their values
    return issues
