"""Adapter: MultiFit.tla histories -> real kafe2 MultiFit objects built from the overlap pattern."""
import warnings

import numpy as np

T = np.array([1.0, 2.0, 3.0])
U = {1: np.array([1.0, 0.5, -1.0]), 2: np.array([0.5, 1.0, 2.0]), 3: np.array([-1.0, 1.0, 0.5])}
DATA = {1: np.array([2.1, 3.9, 6.2]), 2: np.array([1.2, 2.8, 4.1]), 3: np.array([0.4, 2.2, 3.1])}
HDATA = [0.3, 0.8, 1.1, 1.4, 1.6, 1.9, 2.1, 2.2, 2.4, 2.5, 2.6, 2.7, 2.9, 3.0, 3.1, 3.3, 3.4, 3.6, 3.9, 4.2]
VAR = {"s12": 0.01, "s13": 0.02, "s123": 0.04, "o1": 0.08, "o2": 0.16, "o3": 0.32}
PV = {0: 1.0, 1: 1.3, 2: 0.6}
DEFAULTS = {"m": 2.5}          # parameter defaults of the member model functions (index 0 = never set)


def pv_of(name, idx):
    return DEFAULTS.get(name, 1.0) if idx == 0 else PV[idx]
CON = {1: dict(value=1.5, unc=0.5), 2: dict(values=[1.5, 0.5], cov=[[0.25, 0.05], [0.05, 0.16]])}


def make_model(m, names):
    ns = {"T": T, "U": U[m], "np": np}
    exec("def model_%d(%s=1.0, %s=1.0):\n    return %s * T + %s * U\n" % (m, names[0], names[1], names[0], names[1]), ns)
    return ns["model_%d" % m]


def make_density(names):
    ns = {"np": np}
    exec("def density(x, %s=2.5, %s=1.0):\n    return np.exp(-0.5 * ((x - %s) / %s) ** 2) / np.sqrt(2.0 * np.pi * %s ** 2)\n"
         % (names[0], names[1], names[0], names[1], names[1]), ns)
    return ns["density"]


XS = np.array([1.0, 2.0, 4.0])


def make_xy_model(m, names):
    ns = {}
    exec("def line_%d(x, %s=1.0, %s=1.0):\n    return %s * x + %s\n" % (m, names[0], names[1], names[0], names[1]), ns)
    return ns["line_%d" % m]


def build(first):
    from kafe2 import HistContainer, HistFit, IndexedFit, MultiFit, XYFit
    fits = []
    for i, (names, kind) in enumerate(zip(first["pars"], first["kind"])):
        m = i + 1
        if kind == "xy":
            fits.append(XYFit([XS, DATA[m]], make_xy_model(m, names)))
        elif kind == "chi2":
            fits.append(IndexedFit(DATA[m], make_model(m, names)))
        else:
            fits.append(HistFit(HistContainer(5, (0.0, 5.0), fill_data=HDATA), make_density(names)))
    return MultiFit(fits), fits


def member_model(m, names, pvals):
    return pvals[names[0]] * T + pvals[names[1]] * U[m]


def expected_cost(first, st, pvals, fits):
    """Joint -2 log L from the specification's block layout (independent of kafe2's assembly)."""
    chi2 = [i + 1 for i, k in enumerate(first["kind"]) if k == "chi2"]
    n = 3 * len(chi2)
    r = np.zeros(n)
    V = np.zeros((n, n))
    for a, i in enumerate(chi2):
        r[3 * a:3 * a + 3] = DATA[i] - member_model(i, first["pars"][i - 1], pvals)
        for b, j in enumerate(chi2):
            for (li, lj, s) in st["layout"]:
                if li == i and lj == j:
                    V[3 * a:3 * a + 3, 3 * b:3 * b + 3] += np.eye(3) * VAR[s]
    cost = float(r @ np.linalg.solve(V, r)) + float(np.linalg.slogdet(V)[1])
    for i, k in enumerate(first["kind"]):
        if k != "chi2":
            cost += float(fits[i].cost_function_value)
    all_names = []
    for names in first["pars"]:
        for nm in names:
            if nm not in all_names:
                all_names.append(nm)
    for f, k in st["cons"]:
        if k == 0 or (f != 0 and first["kind"][f - 1] != "chi2"):
            continue          # the cost of a non-chi2 member (added above) already contains its own constraints
        names = all_names if f == 0 else first["pars"][f - 1]
        if k == 1:
            cost += ((pvals[names[0]] - CON[1]["value"]) / CON[1]["unc"]) ** 2
        else:
            d = np.array([pvals[names[0]], pvals[names[1]]]) - np.array(CON[2]["values"])
            cost += float(d @ np.linalg.solve(np.array(CON[2]["cov"]), d))
    return cost, V


def gls_solution(first, st, pvals, all_names):
    """Closed-form optimum of the joint linear problem (all members chi2): fixed parameters are known offsets,
    constraints are extra measurement rows.  Returns dict name -> value for the free parameters."""
    chi2 = [i + 1 for i, k in enumerate(first["kind"]) if k == "chi2"]
    n = 3 * len(chi2)
    fixed = set(st["fixed"])
    free = [nm for nm in all_names if nm not in fixed]
    A = np.zeros((n, len(free)))
    d = np.zeros(n)
    V = np.zeros((n, n))
    for a, i in enumerate(chi2):
        names = first["pars"][i - 1]
        d[3 * a:3 * a + 3] = DATA[i]
        for nm, basis in zip(names, (T, U[i])):
            if nm in fixed:
                d[3 * a:3 * a + 3] -= pvals[nm] * basis
            else:
                A[3 * a:3 * a + 3, free.index(nm)] += basis
        for b, j in enumerate(chi2):
            for (li, lj, s) in st["layout"]:
                if li == i and lj == j:
                    V[3 * a:3 * a + 3, 3 * b:3 * b + 3] += np.eye(3) * VAR[s]
    Vi = np.linalg.inv(V)
    H = A.T @ Vi @ A
    g = A.T @ Vi @ d
    for f, k in st["cons"]:
        if k == 0:
            continue
        names = all_names if f == 0 else first["pars"][f - 1]
        cn = names[:k]
        vals = np.array([CON[1]["value"]]) if k == 1 else np.array(CON[2]["values"])
        Ci = np.array([[1.0 / CON[1]["unc"] ** 2]]) if k == 1 else np.linalg.inv(np.array(CON[2]["cov"]))
        S = np.zeros((k, len(free)))
        off = vals.copy()
        for r_, nm in enumerate(cn):
            if nm in fixed:
                off[r_] -= pvals[nm]
            else:
                S[r_, free.index(nm)] = 1.0
        H += S.T @ Ci @ S
        g += S.T @ Ci @ off
    sol = np.linalg.solve(H, g)
    return dict(zip(free, sol)), np.linalg.inv(H)


def init_sources(first, fits):
    for i, kind in enumerate(first["kind"]):
        if kind == "chi2":
            fits[i].add_error(float(np.sqrt(VAR["o%d" % (i + 1)])), name="o%d" % (i + 1))
        elif kind == "xy":
            fits[i].add_error("y", float(np.sqrt(VAR["o%d" % (i + 1)])), name="o%d" % (i + 1))


def apply_mutator(multi, fits, first, a):
    nm = a["name"]
    xy = "xy" in first["kind"]
    if nm == "SetPar":
        tgt = multi if a["f"] == 0 else fits[a["f"] - 1]
        tgt.set_parameter_values(**{a["p"]: PV[a["v"]]})
    elif nm == "FixPar":
        multi.fix_parameter(a["p"])
    elif nm == "ReleasePar":
        multi.release_parameter(a["p"])
    elif nm == "AddConstraint":
        tgt = multi if a["f"] == 0 else fits[a["f"] - 1]
        names = list(tgt.parameter_names)
        if a["k"] == 1:
            tgt.add_parameter_constraint(names[0], CON[1]["value"], CON[1]["unc"])
        else:
            tgt.add_matrix_parameter_constraint(names[:2], CON[2]["values"], CON[2]["cov"])
    elif nm == "AddSource":
        members = sorted(a["fits"])
        axis = "x" if a["s"].startswith("x") else "y"
        val = 0.3 if axis == "x" else float(np.sqrt(VAR[a["s"]]))
        if len(members) == 1:
            fits[members[0] - 1].add_error(*(((axis,) if xy else ()) + (val,)), name=a["s"])
        elif xy:
            multi.add_error(val, fits=[m - 1 for m in members], axis=axis, name=a["s"], correlation=0.5 if axis == "x" else 0)
        else:
            multi.add_error(val, fits=[m - 1 for m in members], name=a["s"])
    elif nm == "DoFit":
        multi.do_fit()
    else:
        raise RuntimeError("adapter: unknown action %r" % nm)


def reference_multi(first, muts):
    """a new multi-fit brought to the same configuration by the same mutators, the reads deleted"""
    multi, fits = build(first)
    init_sources(first, fits)
    for a in muts:
        apply_mutator(multi, fits, first, a)
    return multi, fits


def replay_walk(walk):
    warnings.simplefilter("ignore")
    first = walk["first"]
    multi, fits = build(first)
    init_sources(first, fits)
    xy_pattern = "xy" in first["kind"]
    muts = []
    issues = []
    all_names = list(multi.parameter_names)

    def viol(k, sig, detail):
        issues.append(dict(kind="violation", step=k, kf=None, signature="%s [%s]" % (sig, first["pattern"]), detail=detail))

    def check(k, o, st):
        pv = dict(zip(multi.parameter_names, [float(v) for v in multi.parameter_values]))
        if xy_pattern and o in ("cost", "total_cov", "gof", "chi2p", "member_results"):
            if not st["ready"] or (o == "member_results" and not st["fitted"]):
                return True
            ref, rfits = reference_multi(first, muts)
            fitted = any(m["name"] == "DoFit" for m in muts)
            tol = 1e-3 if fitted else 1e-9
            if o == "cost":
                a_, b_ = float(multi.cost_function_value), float(ref.cost_function_value)
                if abs(a_ - b_) > tol * max(1.0, abs(b_)):
                    viol(k, "cost of the multi-fit differs from a new multi-fit brought to the same configuration", dict(actual=a_, reference=b_, mutators=muts))
                    return False
            elif o == "total_cov":
                a_, b_ = np.asarray(multi.total_cov_mat, dtype=float), np.asarray(ref.total_cov_mat, dtype=float)
                if a_.shape != b_.shape or not np.allclose(a_, b_, rtol=max(tol, 1e-9) * 50 if fitted else 1e-9, atol=1e-12):
                    viol(k, "joint covariance of the multi-fit differs from a new multi-fit brought to the same configuration", dict(actual=a_.tolist(), reference=b_.tolist(), mutators=muts))
                    return False
            elif o in ("gof", "chi2p"):
                a_, b_ = (multi.goodness_of_fit, ref.goodness_of_fit) if o == "gof" else (multi.chi2_probability, ref.chi2_probability)
                if (a_ is None) != (b_ is None) or (a_ is not None and abs(float(a_) - float(b_)) > tol * max(1.0, abs(float(b_)))):
                    viol(k, "%s of the multi-fit differs from a new multi-fit brought to the same configuration" % o, dict(actual=a_, reference=b_, mutators=muts))
                    return False
            return True
        if o == "values":
            for i, f in enumerate(fits):
                for nm, v in zip(f.parameter_names, f.parameter_values):
                    if float(v) != pv[nm]:
                        viol(k, "OneValuePerName: member %d holds a different value of %s" % (i + 1, nm), dict(member=float(v), multi=pv[nm]))
                        return False
            for nm, idx in st["node"].items():
                if idx in (0, 1, 2) and abs(pv[nm] - pv_of(nm, idx)) > 1e-12:
                    viol(k, "OneValuePerName: %s is not the value that was set" % nm, dict(expected=pv_of(nm, idx), actual=pv[nm]))
                    return False
        elif o == "ndf":
            if multi.ndf != st["ndf"]:
                viol(k, "NdfFormula: multi-fit ndf", dict(expected=st["ndf"], actual=int(multi.ndf), constraints=st["cons"], fixed=sorted(st["fixed"])))
                return False
        elif o == "cost" and st["ready"]:
            exp, V = expected_cost(first, st, pv, fits)
            got = float(multi.cost_function_value)
            if abs(got - exp) > 1e-7 * max(1.0, abs(exp)):
                shared_now = any(s.startswith("s") for s in st["srcs"])
                member_cons = any(kk > 0 and f != 0 and first["kind"][f - 1] == "chi2" for f, kk in st["cons"])
                issues.append(dict(kind="violation", step=k, kf="KF-C11-SHARED-MEMBER-CONSTRAINTS" if (shared_now and member_cons) else None,
                                   signature="cost of the multi-fit differs from the joint -2 log L with the specification's block layout [%s]" % first["pattern"],
                                   detail=dict(expected=exp, actual=got, sources=sorted(st["srcs"]), constraints=st["cons"])))
                return False
            shared = [s for s in st["srcs"] if s.startswith("s")]
            if not shared:
                tot = sum(float(f.cost_function_value) for f in fits)
                extra = 0.0
                c0 = dict((f, kk) for f, kk in st["cons"])[0]
                if c0 == 1:
                    extra = ((pv[all_names[0]] - CON[1]["value"]) / CON[1]["unc"]) ** 2
                elif c0 == 2:
                    d = np.array([pv[all_names[0]], pv[all_names[1]]]) - np.array(CON[2]["values"])
                    extra = float(d @ np.linalg.solve(np.array(CON[2]["cov"]), d))
                if abs(got - tot - extra) > 1e-7 * max(1.0, abs(got)):
                    viol(k, "cost of the multi-fit is not the sum of the member costs", dict(multi=got, members=tot, own_constraints=extra))
                    return False
        elif o in ("gof", "chi2p") and st["ready"] and all(kk == "chi2" for kk in first["kind"]):
            from scipy import stats
            shared_now = any(s.startswith("s") for s in st["srcs"])
            member_cons = any(kk > 0 and f != 0 for f, kk in st["cons"])
            if not (shared_now and member_cons):
                exp, V = expected_cost(first, st, pv, fits)
                chi2_val = exp - float(np.linalg.slogdet(V)[1])          # the cost without its determinant term
                if o == "gof":
                    got = multi.goodness_of_fit
                    if got is None or abs(float(got) - chi2_val) > 1e-7 * max(1.0, abs(chi2_val)):
                        viol(k, "goodness of fit of the multi-fit differs from cost minus saturated cost", dict(expected=chi2_val, actual=got))
                        return False
                else:
                    got = multi.chi2_probability
                    e = float(stats.chi2.sf(chi2_val, st["ndf"]))
                    if got is None or abs(float(got) - e) > 1e-7 * max(1e-12, e) + 1e-15:
                        viol(k, "chi2 probability of the multi-fit differs from the chi2 upper tail of the cost without determinant term",
                             dict(expected=e, actual=got, chi2=chi2_val, ndf=st["ndf"], sources=sorted(st["srcs"])))
                        return False
        elif o == "total_cov" and st["ready"]:
            exp, V = expected_cost(first, st, pv, fits)
            chi2 = [i + 1 for i, kk in enumerate(first["kind"]) if kk == "chi2"]
            got = np.asarray(multi.total_cov_mat, dtype=float)
            if len(chi2) == len(first["kind"]):
                if got.shape != V.shape or not np.allclose(got, V, rtol=1e-10, atol=1e-14):
                    viol(k, "BlockLayout: joint covariance differs from the specification's layout", dict(expected=V.tolist(), actual=got.tolist()))
                    return False
        elif o == "member_results" and st["fitted"]:
            perr, pcov = np.asarray(multi.parameter_errors), np.asarray(multi.parameter_cov_mat)
            for i, f in enumerate(fits):
                idx = [all_names.index(nm) for nm in f.parameter_names]
                if not np.allclose(np.asarray(f.parameter_errors), perr[idx], rtol=1e-9):
                    viol(k, "MemberResultsAreSubBlocks: uncertainties of member %d" % (i + 1), dict(member=list(f.parameter_errors), multi=list(perr[idx])))
                    return False
                if f.parameter_cov_mat is None or not np.allclose(np.asarray(f.parameter_cov_mat), pcov[np.ix_(idx, idx)], rtol=1e-9):
                    viol(k, "MemberResultsAreSubBlocks: covariance of member %d" % (i + 1), dict())
                    return False
                if not f.did_fit:
                    viol(k, "MemberResultsAreSubBlocks: member %d does not report did_fit" % (i + 1), dict())
                    return False
            shared_now = any(s.startswith("s") for s in st["srcs"])
            member_cons = any(kk > 0 and ff != 0 for ff, kk in st["cons"])
            if all(kk == "chi2" for kk in first["kind"]) and not (shared_now and member_cons):
                sol, cov = gls_solution(first, st, pv, all_names)
                free = list(sol)
                sig = np.sqrt(np.diag(cov))
                for q, nm in enumerate(free):
                    if abs(pv[nm] - sol[nm]) > 0.02 * sig[q] + 1e-9:
                        viol(k, "JointFit: the multi-fit optimum differs from the joint GLS solution with the specification's block layout",
                             dict(parameter=nm, expected=float(sol[nm]), actual=pv[nm], sigma=float(sig[q]), sources=sorted(st["srcs"])))
                        return False
                idx = [all_names.index(nm) for nm in free]
                if not np.allclose(pcov[np.ix_(idx, idx)], cov, rtol=0.03, atol=1e-4 * float(np.max(np.abs(cov)))):
                    viol(k, "JointFit: parameter covariance differs from (A^T V^-1 A + C)^-1", dict(expected=cov.tolist(), actual=pcov[np.ix_(idx, idx)].tolist()))
                    return False
        return True

    last = walk["init"]
    for k, e in enumerate(walk["steps"]):
        a = e["a"]
        nm = a["name"]
        try:
            if nm != "Read":
                apply_mutator(multi, fits, first, a)
                muts.append(a)
                if xy_pattern and e.get("ready"):
                    # reads may come anywhere: the live object is asked for its cost after every mutator, the reference never before the end
                    _ = multi.cost_function_value, multi.total_cov_mat
            elif not check(k, a["o"], e):
                return issues
        except RuntimeError:
            raise
        except Exception as exc:
            viol(k, "valid %s raised %s" % (nm, type(exc).__name__), dict(action=a, exc=str(exc)[:300]))
            return issues
        if nm in ("FixPar", "ReleasePar"):
            for i, f in enumerate(fits):
                fx = sorted(f._fitter.fixed_parameters)
                expf = sorted(p for p in e["fixed"] if p in f.parameter_names)
                if fx != expf:
                    viol(k, "Mirrored: fixed parameters of member %d after %s" % (i + 1, nm), dict(expected=expf, actual=fx))
                    return issues
        last = e
    for o in ("values", "ndf", "cost", "gof", "chi2p", "total_cov", "member_results"):
        try:
            if not check(len(walk["steps"]) - 1, o, last):
                break
        except Exception as exc:
            viol(len(walk["steps"]) - 1, "reading %s of the multi-fit raised %s" % (o, type(exc).__name__), dict(exc=str(exc)[:300], history=[s["a"] for s in walk["steps"]]))
            break
    return issues
