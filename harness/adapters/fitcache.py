"""Adapter: FitCache.tla histories -> real fits, with the oracle the property names:

  reference(o) = a NEW fit, brought to the same configuration by the same mutators with every read deleted
                 (and every rejected call left out), asked for o FIRST.
  canonical(o) = for states after a fit: a NEW fit configured identically, its parameters SET to the fitted values
                 instead of being fitted (detects quantities left pinned to values they had during the minimisation).
"""
import json
import os
import warnings

import numpy as np

from .. import fitlib as fl

MINIMIZER = os.environ.get("VERIF_MINIMIZER", "iminuit")
_ref_cache = {}
VALUE_OBS = ("model", "model_error", "model_cov", "total_error", "total_cov", "data_error", "data_cov")
PROBE = ("cost", "total_cov", "total_error", "model", "ndf", "pvals")


def _key(ftype, dea, mini, muts, o):
    return (ftype, dea, mini, json.dumps(muts, sort_keys=True), o)


def reference(ftype, dea, mini, muts, o):
    k = _key(ftype, dea, mini, muts, o)
    if k not in _ref_cache:
        if len(_ref_cache) > 20000:
            _ref_cache.clear()
        fit = fl.make_fit(ftype, minimizer=mini, dea=dea)
        for m in muts:
            r = fl.apply_action(fit, ftype, m)
            if r != "none":
                raise RuntimeError("reference construction: %s -> %s" % (m, r))
        first = fl.safe_read(fit, ftype, o)
        sig = fl.safe_read(fit, ftype, "perrs") if o == "pvals" else None
        _ref_cache[k] = (first, sig[1] if sig and sig[0] == "value" else None)
    return _ref_cache[k]


def canonical(ftype, dea, mini, muts, fitted_vals, o):
    """Fresh fit, same mutators, but every do_fit replaced by SETTING the parameters to the values that fit found."""
    fit = fl.make_fit(ftype, minimizer=mini, dea=dea)
    k = 0
    for m in muts:
        if m["name"] == "DoFit":
            fit.set_all_parameter_values(list(fitted_vals[k]))
            k += 1
            continue
        fl.apply_action(fit, ftype, m)
    return fl.safe_read(fit, ftype, o)


def replay_walk(walk, mini=None):
    warnings.simplefilter("ignore")
    mini = mini or walk.get("minimizer") or MINIMIZER
    ftype, dea = walk["first"]["type"], walk["first"]["dea"]
    fit = fl.make_fit(ftype, minimizer=mini, dea=dea)
    muts, issues, fitted_vals = [], [], []
    last = walk["init"]

    def viol(k, sig, detail):
        issues.append(dict(kind="violation", step=k, kf=None, signature="%s [%s/%s/%s]" % (sig, ftype, dea, mini), detail=detail))

    def check_read(k, o, st, where):
        got = fl.safe_read(fit, ftype, o)
        fitted = any(m["name"] == "DoFit" for m in muts)
        # exact, spec-predicted observables
        if o == "ndf" and got != ("value", st["ndf"]):
            viol(k, "NdfFormula: ndf %s" % where, dict(expected=st["ndf"], actual=fl._short(got)))
            return False
        if o == "did_fit" and got != ("value", st["did_fit"]):
            viol(k, "DidFitMeaning: did_fit %s" % where, dict(expected=st["did_fit"], actual=fl._short(got)))
            return False
        if o == "has_errors" and got != ("value", st["has_errors"]):
            viol(k, "has_errors %s" % where, dict(expected=st["has_errors"], actual=fl._short(got)))
            return False
        if o == "fixed" and got != ("value", sorted(st["fixed"])):
            viol(k, "fixed parameters %s" % where, dict(expected=sorted(st["fixed"]), actual=fl._short(got)))
            return False
        if o == "limited" and got != ("value", sorted(st["limited"])):
            viol(k, "limited parameters %s" % where, dict(expected=sorted(st["limited"]), actual=fl._short(got)))
            return False
        ref, sig = reference(ftype, dea, mini, muts, o)
        d = fl.compare(o, got, ref, fitted=fitted, sigma=sig)
        if d:
            lastm = muts[-1]["name"] if muts else "Init"
            viol(k, "ReadCorrect: %s differs from a fresh fit with the same configuration (last mutator %s) %s" % (o, lastm, where),
                 dict(observable=o, difference=d, mutators=muts))
            # known finding: iminuit, parameter fixed / released after the fit and no new fit: the left-over uncertainty of a FREE parameter
            # is the one of the fit or the conditional one of a later HESSE, depending on whether the covariance matrix was read in between
            names = [m["name"] for m in muts]
            if mini == "iminuit" and o in ("perrs", "result") and "DoFit" in names \
                    and any(n in ("Fix", "Release") for n in names[len(names) - names[::-1].index("DoFit"):]):
                try:
                    ga = got[1]["parameter_errors"] if o == "result" else got[1]
                    ra = ref[1]["parameter_errors"] if o == "result" else ref[1]
                    ga = np.array(list(ga.values()) if isinstance(ga, dict) else ga, dtype=float)
                    ra = np.array(list(ra.values()) if isinstance(ra, dict) else ra, dtype=float)
                    differing = ~np.isclose(ga, ra, rtol=0.05, atol=1e-9)
                    if ga.shape == ra.shape and np.all((ga[differing] > 0) & (ra[differing] > 0)):
                        issues[-1]["kf"] = "KF-C03-IMINUIT-ERRORS-AFTER-FIX"
                except Exception:
                    pass
            return False
        if fitted and o in VALUE_OBS and st.get("posdef", True):
            can = canonical(ftype, dea, mini, muts, fitted_vals, o)
            d = fl.compare(o, got, can, fitted=False)
            if d and fl.compare(o, got, can, fitted=True):
                viol(k, "NothingPinnedAfterFit: %s differs from a fresh fit whose parameters were SET to the fitted values instead of fitted %s" % (o, where),
                     dict(observable=o, difference=d, mutators=muts))
                return False
        return True

    for k, e in enumerate(walk["steps"]):
        a, exp = e["a"], e["o"]
        if a["name"] == "Read":
            if not check_read(k, a["o"], e, "(read in history)"):
                return issues
        else:
            r = fl.apply_action(fit, ftype, a)
            if exp["kind"] == "reject":
                if r == "none":
                    viol(k, "Rejected: %s%s was accepted" % (a["name"], "(" + a["bad"] + ")" if "bad" in a else ""), dict(action=a))
                    return issues
            else:
                if r != "none":
                    viol(k, "valid %s raised %s" % (a["name"], r), dict(action=a, mutators=muts))
                    return issues
                muts.append(a)
                if a["name"] == "DoFit":
                    fitted_vals.append([float(v) for v in fit.parameter_values])
                    pinned = sorted(n for n, node in fit._nexus._nodes.items() if n != "__root__" and node.frozen)
                    if pinned:
                        viol(k, "NothingPinnedAfterFit: nodes left frozen after do_fit: %s" % pinned, dict(mutators=muts))
                        return issues
        last = e
    for o in PROBE:
        if o in ("cost", "gof", "chi2p", "result", "total_inv", "pvals") and not last.get("posdef", True):
            continue
        if not check_read(len(walk["steps"]) - 1, o, last, "(final probe)"):
            break
    return issues


def replay_walk_scipy(walk):
    return replay_walk(walk, mini="scipy")
