"""Run-time recorder for the Nexus computation graph (direction B: traces of real executions validated against spec/TraceNexus.tla).

No source hooks: when KAFE2_VERIF=1 the harness wraps, after importing kafe2 from /repo, the public methods of the node classes
(value getter / setter, update, mark_for_update, freeze, unfreeze and the structure mutators).  An event is logged after the wrapped
call returned, still inside the wrapper (`finally`, so the error path is logged too); a depth counter tells user-level calls (depth 0)
from calls made by the graph itself.  Nodes are numbered in order of first appearance; the session keeps them alive (no id reuse).

Events (one JSON object per line):
  graph   adj = [[node, [children...]], ...]      emitted before the next event whenever the structure changed
  assign  n, top       value setter
  mark    n, top       mark_for_update called from outside the graph (depth 0), or a structure / function change of n
  freeze / unfreeze n
  eval    n, ok        update() of a computed node ran (children first)
  read    n, top, ok   value getter returned (only depth 0 is logged)
"""
import json
import os

_STATE = None


class Session:
    def __init__(self, max_events=4000):
        self.events = []
        self.ids = {}
        self.keep = []
        self.depth = 0
        self.dirty = True
        self.max_events = max_events
        self.truncated = False
        self.active = True
        self.last_adj = None

    def nid(self, node):
        k = id(node)
        if k not in self.ids:
            self.ids[k] = "n%d" % len(self.ids)
            self.keep.append(node)
            self.dirty = True
            for c in getattr(node, "_children", []):
                self.nid(c)
        return self.ids[k]

    def emit(self, ev):
        if not self.active:
            return
        if len(self.events) >= self.max_events:
            self.truncated = True
            self.active = False
            return
        if self.dirty:
            # children may have been added to nodes we know: make sure they are registered first
            k = 0
            while k < len(self.keep):
                for c in getattr(self.keep[k], "_children", []):
                    self.nid(c)
                k += 1
            self.dirty = False
            adj = [[self.ids[id(n)], [self.ids[id(c)] for c in getattr(n, "_children", [])]] for n in self.keep]
            if adj != self.last_adj:
                self.last_adj = adj
                self.events.append(dict(e="graph", adj=adj))
        self.events.append(ev)

    def dump(self, path):
        with open(path, "w") as f:
            for ev in self.events:
                f.write(json.dumps(ev) + "\n")
            # legend for humans (the monitor skips it): node -> [name, class]
            f.write(json.dumps(dict(e="names", names=[[self.ids[id(n)], str(getattr(n, "name", "?")), type(n).__name__] for n in self.keep])) + "\n")


def current():
    return _STATE


def start(max_events=4000):
    global _STATE
    _STATE = Session(max_events)
    return _STATE


def stop():
    global _STATE
    s, _STATE = _STATE, None
    return s


_INSTALLED = False


def install():
    """wrap the node classes once; events are only recorded while a session is active"""
    global _INSTALLED
    if _INSTALLED:
        return
    if os.environ.get("KAFE2_VERIF") != "1":
        raise RuntimeError("recorder: KAFE2_VERIF=1 is the guard for installing the wrappers")
    from kafe2.core.fitters import nexus as nx
    classes = [c for c in vars(nx).values() if isinstance(c, type) and issubclass(c, nx.NodeBase)]

    def wrap_value(cls):
        prop = cls.__dict__["value"]
        fget, fset = prop.fget, prop.fset

        def getter(self):
            s = _STATE
            if s is None or not s.active:
                return fget(self)
            top = s.depth == 0
            s.depth += 1
            ok = False
            try:
                r = fget(self)
                ok = True
                return r
            finally:
                s.depth -= 1
                if top:
                    s.emit(dict(e="read", n=s.nid(self), top=True, ok=ok))

        def setter(self, value):
            s = _STATE
            if s is None or not s.active:
                return fset(self, value)
            top = s.depth == 0
            s.depth += 1
            ok = False
            try:
                fset(self, value)
                ok = True
            finally:
                s.depth -= 1
                if ok:
                    s.emit(dict(e="assign", n=s.nid(self), top=top))
        setattr(cls, "value", property(getter, setter if fset is not None else None, prop.fdel, prop.__doc__))

    def wrap_method(cls, name, event, only_top=False, structural=False):
        orig = cls.__dict__[name]

        def method(self, *a, **kw):
            s = _STATE
            if s is None or not s.active:
                return orig(self, *a, **kw)
            top = s.depth == 0
            s.depth += 1
            ok = False
            try:
                r = orig(self, *a, **kw)
                ok = True
                return r
            finally:
                s.depth -= 1
                if structural:
                    s.dirty = True
                if event == "eval":
                    s.emit(dict(e="eval", n=s.nid(self), ok=ok, top=top))
                elif ok and (top or not only_top):
                    s.emit(dict(e=event, n=s.nid(self), top=top))
        method.__name__ = name
        setattr(cls, name, method)

    for cls in classes:
        d = cls.__dict__
        if "value" in d and isinstance(d["value"], property):
            wrap_value(cls)
        if "update" in d and cls is not nx.NodeBase:
            wrap_method(cls, "update", "eval")
        if "mark_for_update" in d and cls is not nx.Parameter:       # a Parameter ignores marks: it is always up to date
            wrap_method(cls, "mark_for_update", "mark", only_top=True)
        for nm in ("freeze", "unfreeze"):
            if nm in d:
                wrap_method(cls, nm, nm)
        for nm in ("add_child", "remove_child", "set_children", "replace_child"):
            if nm in d:
                wrap_method(cls, nm, "mark", structural=True)
    # a new function handle changes the node's own content
    fprop = nx.Function.__dict__["func"]

    def fset(self, handle, _orig=fprop.fset):
        s = _STATE
        if s is None or not s.active:
            return _orig(self, handle)
        s.depth += 1
        try:
            _orig(self, handle)
        finally:
            s.depth -= 1
        s.emit(dict(e="mark", n=s.nid(self), top=True))
    nx.Function.func = property(fprop.fget, fset, fprop.fdel, fprop.__doc__)
    _INSTALLED = True
