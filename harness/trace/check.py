"""Record executions of the real code and validate them against spec/TraceNexus.tla (direction B)."""
import json
import multiprocessing as mp
import os
import re
import shutil
import subprocess
import sys
import warnings

ROOT = os.path.dirname(os.path.dirname(os.path.dirname(os.path.abspath(__file__))))
JAR = "/opt/veriftools/tla/tla2tools.jar:/opt/veriftools/tla/CommunityModules-deps.jar"


def _workload(name):
    """scripted user sessions on every fit type (mutators interleaved with reads and fits)"""
    from .. import fitlib as fl
    kind, variant = name.split(":")
    if kind == "multi":
        from kafe2 import MultiFit
        f1, f2 = fl.make_fit("xy"), fl.make_fit("xy", ds="d1")
        for f in (f1, f2):
            fl.add_source(f, "xy", "ey1")
        m = MultiFit([f1, f2])
        _ = m.cost_function_value
        m.add_error(0.2, fits="all", axis="y", name="sh")
        _ = m.cost_function_value
        m.set_parameter_values(a=2.0)
        _ = m.cost_function_value
        m.do_fit()
        _ = m.parameter_errors
        m.fix_parameter("b", 0.5)
        m.do_fit()
        _ = m.cost_function_value, f1.cost_function_value
        return
    f = fl.make_fit(kind, dea="iterative" if variant == "iter" else "nonlinear")
    names = fl.PARAMS[kind]
    if kind in ("xy", "xyq", "indexed"):
        fl.add_source(f, kind, "ey1")
    _ = f.cost_function_value
    if kind in ("xy", "xyq"):
        fl.add_source(f, kind, "ex1")
        fl.add_source(f, kind, "em2")
    elif kind in ("indexed", "hist"):
        fl.add_source(f, kind, "ey2")
    _ = f.cost_function_value, f.total_cov_mat if kind != "unbinned" else None
    f.set_parameter_values(**{names[0]: fl.PVALS[kind][names[0]][1]})
    _ = f.cost_function_value, f.model
    if variant != "nofit":
        f.do_fit()
        _ = f.parameter_errors, f.cost_function_value
    fl.add_constraint(f, kind, "c1")
    _ = f.cost_function_value
    if kind != "unbinned":
        f.data = fl.make_data(kind, "d1")
        _ = f.cost_function_value
        if kind in ("xy", "xyq", "indexed"):
            fl.add_source(f, kind, "ey3")
        _ = f.cost_function_value
        if kind in ("xy", "xyq", "indexed"):
            f.disable_error("ey3")
            _ = f.cost_function_value
            f.enable_error("ey3")
    f.fix_parameter(names[1])
    f.do_fit()
    _ = f.cost_function_value, f.parameter_values
    f.release_parameter(names[1])
    f.limit_parameter(names[0], -50, 50)
    f.do_fit()
    _ = f.goodness_of_fit, f.ndf


WORKLOADS = ["xy:fit", "xy:iter", "xy:nofit", "xyq:fit", "indexed:fit", "hist:fit", "unbinned:fit", "multi:fit"]


def _record_workload(args):
    name, out_dir, max_events = args
    os.environ["KAFE2_VERIF"] = "1"
    warnings.simplefilter("ignore")
    from . import recorder as R
    R.install()
    devnull = os.open(os.devnull, os.O_WRONLY)
    os.dup2(devnull, 1)
    os.dup2(devnull, 2)
    s = R.start(max_events)
    err = None
    try:
        _workload(name)
    except Exception as exc:      # the workload itself must run: otherwise machinery failure
        err = repr(exc)
    s = R.stop()
    path = os.path.join(out_dir, "wl-%s.ndjson" % name.replace(":", "-"))
    s.dump(path)
    return dict(name="workload " + name, path=path, events=len(s.events), truncated=s.truncated, error=err)


class _PytestPlugin:
    """one recording session per test function of the repository's own suite"""

    def __init__(self, out_dir, max_events, min_events):
        self.out_dir, self.max_events, self.min_events = out_dir, max_events, min_events
        self.records = []

    def pytest_runtest_setup(self, item):
        from . import recorder as R
        R.start(self.max_events)

    def pytest_runtest_teardown(self, item):
        from . import recorder as R
        s = R.stop()
        if s is None or len(s.events) < self.min_events:
            return
        safe = re.sub(r"[^A-Za-z0-9_.-]+", "_", item.nodeid)[-120:]
        path = os.path.join(self.out_dir, "t-%s.ndjson" % safe)
        s.dump(path)
        self.records.append(dict(name="repository test " + item.nodeid, path=path, events=len(s.events), truncated=s.truncated, error=None))


def _record_tests(args):
    modules, out_dir, max_events, keyword = args
    os.environ["KAFE2_VERIF"] = "1"
    os.environ.setdefault("MPLBACKEND", "Agg")
    warnings.simplefilter("ignore")
    import pytest
    from . import recorder as R
    R.install()
    plug = _PytestPlugin(out_dir, max_events, 30)
    devnull = os.open(os.devnull, os.O_WRONLY)
    so, se = os.dup(1), os.dup(2)
    os.dup2(devnull, 1)
    os.dup2(devnull, 2)
    cwd = os.getcwd()
    os.chdir(out_dir)            # tests write scratch files into the working directory
    try:
        argv = ["-q", "-x", "-p", "no:cacheprovider", "--timeout=600"] + (["-k", keyword] if keyword else []) + modules
        rc = pytest.main(argv, plugins=[plug])
    finally:
        os.chdir(cwd)
        os.dup2(so, 1)
        os.dup2(se, 2)
    return dict(rc=int(rc), records=plug.records)


def _validate(args):
    rec, build = args
    meta = os.path.join(build, "tlc-" + os.path.basename(rec["path"]))
    os.makedirs(meta, exist_ok=True)
    for f in ("TraceNexus.tla",):
        shutil.copy(os.path.join(ROOT, "spec", f), meta)
    with open(os.path.join(meta, "T.cfg"), "w") as f:
        f.write("SPECIFICATION Spec\nCONSTRAINT Report\nCHECK_DEADLOCK FALSE\n")
    env = dict(os.environ, TRACE_FILE=rec["path"])
    p = subprocess.run(["java", "-XX:+UseParallelGC", "-Xmx2g", "-cp", JAR, "tlc2.TLC", "-workers", "1", "-metadir", os.path.join(meta, "states"), "-noGenerateSpecTE",
                        "-config", "T.cfg", "TraceNexus.tla"], cwd=meta, env=env, capture_output=True, text=True, timeout=1800)
    m = re.search(r'<<"TRACE-VERDICT", <<"(\w+)", (\d+), "([^"]*)">>, (\d+)>>', p.stdout)
    shutil.rmtree(meta, ignore_errors=True)
    if not m:
        return dict(rec, verdict="machinery", detail=p.stdout[-1500:] + p.stderr[-500:])
    return dict(rec, verdict=m.group(1), line=int(m.group(2)), node=m.group(3), consumed=int(m.group(4)))


def run(tier, out_dir, build):
    """Returns (results, summary).  results: list of dicts with verdict in {ok, ReadCorrect, AtMostOnce, NoSpurious, machinery}."""
    os.makedirs(out_dir, exist_ok=True)
    max_events = 2500 if tier == "quick" else 12000
    ctx = mp.get_context("fork")           # the recorder is installed inside the workers only: the parent process stays unpatched
    with ctx.Pool(8) as pool:
        recs = pool.map(_record_workload, [(w, out_dir, max_events) for w in WORKLOADS])
        import importlib.util
        troot = os.path.join(os.path.dirname(importlib.util.find_spec("kafe2").origin), "test")     # the tests of the tree under test
        tests = [os.path.join(troot, "fit", "test_fit_xy.py"), os.path.join(troot, "fit", "test_fit_indexed.py")]
        if tier != "quick":
            tests += [os.path.join(troot, "fit", t) for t in ("test_fit_hist.py", "test_fit_unbinned.py", "test_fit_multi.py", "test_fits_with_parameter_constraints.py")]
            tests += [os.path.join(troot, "core", "test_nexus.py")]
        tres = pool.map(_record_tests, [([t], out_dir, max_events, None) for t in tests])
    for w in recs:
        if w["error"]:
            raise RuntimeError("trace workload %s failed: %s" % (w["name"], w["error"]))
    trecs = [r for t in tres for r in t["records"]]
    if tier == "quick":        # the longest sessions of every module, bounded
        trecs.sort(key=lambda r: -r["events"])
        trecs = trecs[:24]
    allrecs = recs + trecs
    with mp.get_context("fork").Pool(16) as pool:
        results = pool.map(_validate, [(r, build) for r in allrecs])
    summary = dict(workloads=len(recs), repository_tests_recorded=len(trecs), events=sum(r["events"] for r in allrecs),
                   test_modules=[os.path.basename(t) for t in tests], pytest_rc=[t["rc"] for t in tres])
    return results, summary
