"""Thin, dependable wrapper around TLC (tla2tools 1.8).

Three ways TLC is used by every module of the suite (DESIGN 3.2):

  run_mc   exhaustive check of a MC_*.cfg (invariants, action properties, -coverage 1)
  run_gen  the same model with ACTION_CONSTRAINT EdgeOut: every generated edge is printed as JSON
  run_sim  tlc -simulate with the same EdgeOut constraint: random walks, step by step

All scratch goes under /verif/build/tlc/<pid>-<n> and is removed afterwards.
A TLC failure that is not a property violation raises MachineryError (exit code 2 in the CLI).
"""
import json
import os
import re
import shutil
import subprocess
import time

ROOT = os.path.dirname(os.path.dirname(os.path.abspath(__file__)))
SPEC_DIR = os.path.join(ROOT, "spec")
BUILD = os.path.join(ROOT, "build")
JAR = "/opt/veriftools/tla/tla2tools.jar"

_counter = [0]


class MachineryError(Exception):
    pass


def _scratch():
    _counter[0] += 1
    d = os.path.join(BUILD, "tlc", "%d-%d" % (os.getpid(), _counter[0]))
    os.makedirs(d, exist_ok=True)
    return d


def _classpath():
    # tlc wrapper on PATH already knows the CommunityModules; we call java directly to pass -D options
    cp = [JAR]
    d = os.path.dirname(JAR)
    for f in sorted(os.listdir(d)):
        if f.endswith(".jar") and f != os.path.basename(JAR):
            cp.append(os.path.join(d, f))
    return ":".join(cp)


def _java_cmd(extra_jvm=()):
    return ["java", "-XX:+UseParallelGC", "-Xmx8g", "-cp", _classpath()] + list(extra_jvm) + ["tlc2.TLC"]


def write_cfg(path, text):
    with open(path, "w") as f:
        f.write(text)


def _run(spec, cfg_text, args, workers, timeout, env=None, stdout_path=None, extra_files=None):
    """Copy spec dir into scratch (so generated cfgs / TTrace files never dirty /verif/spec)."""
    d = _scratch()
    for f in os.listdir(SPEC_DIR):
        if f.endswith(".tla"):
            shutil.copy(os.path.join(SPEC_DIR, f), os.path.join(d, f))
    for fname, text in (extra_files or {}).items():
        with open(os.path.join(d, fname), "w") as fh:
            fh.write(text)
    cfg = os.path.join(d, "run.cfg")
    write_cfg(cfg, cfg_text)
    cmd = _java_cmd() + [
        "-workers", str(workers), "-metadir", os.path.join(d, "meta"), "-noGenerateSpecTE",
        "-config", cfg,
    ] + list(args) + [os.path.join(d, spec + ".tla")]
    e = dict(os.environ)
    if env:
        e.update(env)
    t0 = time.time()
    out_path = stdout_path or os.path.join(d, "out.txt")
    with open(out_path, "w") as out:
        try:
            p = subprocess.run(cmd, stdout=out, stderr=subprocess.STDOUT, cwd=d, env=e, timeout=timeout)
            rc = p.returncode
        except subprocess.TimeoutExpired:
            rc = -9
    return d, out_path, rc, time.time() - t0


_RE_STATES = re.compile(r"^(\d+) states generated, (\d+) distinct states found, (\d+) states left on queue", re.M)
_RE_DEPTH = re.compile(r"The depth of the complete state graph search is (\d+)")
_RE_COV_ACTION = re.compile(r"^<(\w+) line (\d+), col (\d+) to line (\d+), col (\d+) of module (\w+)>: (\d+):(\d+)", re.M)
_RE_INV = re.compile(r"Error: Invariant (\w+) is violated")
_RE_ACTPROP = re.compile(r"Error: Action property (\w+) is violated|Error: Action property line")
_RE_INIT = re.compile(r"Finished computing initial states: (\d+) distinct state")


def parse_mc_output(text):
    res = {"generated": 0, "distinct": 0, "queue": 0, "depth": None, "coverage": {}, "violated": None,
           "error": None, "init": None}
    m = None
    for m in _RE_STATES.finditer(text):
        pass
    if m:
        res["generated"], res["distinct"], res["queue"] = int(m.group(1)), int(m.group(2)), int(m.group(3))
    m = _RE_DEPTH.search(text)
    if m:
        res["depth"] = int(m.group(1))
    m = _RE_INIT.search(text)
    if m:
        res["init"] = int(m.group(1))
    for m in _RE_COV_ACTION.finditer(text):
        name = m.group(1)
        # the last coverage dump wins (TLC prints coverage periodically)
        res["coverage"][name] = (int(m.group(7)), int(m.group(8)))
    m = _RE_INV.search(text)
    if m:
        res["violated"] = m.group(1)
    else:
        m = _RE_ACTPROP.search(text)
        if m:
            res["violated"] = m.group(1) or "action-property"
    if res["violated"] is None and "Error:" in text:
        # everything else is machinery
        i = text.index("Error:")
        res["error"] = text[i:i + 1500]
    return res


def extract_counterexample(text):
    """Return the textual error trace TLC printed (list of state blocks)."""
    blocks = re.split(r"^State \d+: ", text, flags=re.M)
    return [b.strip() for b in blocks[1:]]


def run_mc(spec, cfg_text, workers=16, timeout=1500, coverage=True, keep=False, extra_args=(), extra_files=None):
    args = list(extra_args)
    if coverage:
        args += ["-coverage", "1"]
    d, out_path, rc, wall = _run(spec, cfg_text, args, workers, timeout, extra_files=extra_files)
    text = open(out_path, errors="replace").read()
    res = parse_mc_output(text)
    res["wall_s"] = wall
    res["rc"] = rc
    if rc == -9:
        res["error"] = "TLC timed out after %ss" % timeout
    if res["violated"]:
        res["trace"] = extract_counterexample(text)
    res["tail"] = text[-3000:]
    if not keep:
        shutil.rmtree(d, ignore_errors=True)
    else:
        res["dir"] = d
    if res["error"] and not res["violated"]:
        raise MachineryError("TLC failed on %s: %s" % (spec, res["error"]))
    if "Model checking completed" not in text and not res["violated"]:
        raise MachineryError("TLC did not complete on %s (rc=%s): %s" % (spec, rc, text[-1500:]))
    return res


def _iter_json_lines(path):
    """EdgeOut prints a TLA+ string literal holding JSON; one per line."""
    with open(path, errors="replace") as f:
        for line in f:
            if line.startswith('"{'):
                line = line.rstrip("\n")
                try:
                    if "\\\\" not in line:      # no escaped backslash: un-escaping the quotes is enough
                        yield json.loads(line[1:-1].replace('\\"', '"'))
                    else:
                        yield json.loads(json.loads(line))
                except Exception as exc:  # interleaved output would be a machinery failure
                    raise MachineryError("cannot parse edge line: %r (%s)" % (line[:200], exc))


def _hkey(h):
    return json.dumps(h, sort_keys=True, separators=(",", ":"))


def run_paths(spec, cfg_text, simulate=None, timeout=2400, xmx="16g", extra_files=None):
    """Path-tree generation (Gen*.tla modules: variable `hist`, ACTION_CONSTRAINT PathOut, CONSTRAINT StateOut).

    Exhaustive (simulate=None) or `simulate=(num, depth, seed)`.
    Returns (walks, stats).  A walk is dict(init=<state record of the initial history>, first=<Init record>,
    steps=[dict(edge fields + target state fields)]), one walk per maximal history.
    """
    args = []
    if simulate:
        num, depth, seed = simulate
        args = ["-simulate", "num=%d" % num, "-depth", str(depth), "-seed", str(seed)]
    d, out_path, rc, wall = _run(spec, cfg_text, args, 1, timeout, extra_files=extra_files)
    head = subprocess.run(["grep", "-v", '^"{', out_path], capture_output=True, text=True).stdout
    res = parse_mc_output(head)
    bad = "Error:" in head or (not simulate and "Model checking completed" not in head)
    if bad:
        shutil.rmtree(d, ignore_errors=True)
        raise MachineryError("TLC path generation failed on %s: %s" % (spec, head[-2000:]))
    states, edges = {}, {}
    for rec in _iter_json_lines(out_path):
        if "sh" in rec:
            states[_hkey(rec["sh"])] = rec
        else:
            edges[_hkey(rec["h"] + [rec["a"]])] = rec
    shutil.rmtree(d, ignore_errors=True)
    # maximal histories: edge targets that are not the source of another edge
    sources = {_hkey(e["h"]) for e in edges.values()}
    walks = []
    for k, e in edges.items():
        if k in sources:
            continue
        full = e["h"] + [e["a"]]
        steps, ok = [], True
        for n in range(2, len(full) + 1):
            kk = _hkey(full[:n])
            ed, st = edges.get(kk), states.get(kk)
            if ed is None or st is None:
                ok = False
                break
            step = dict(st)
            step.update(ed)
            step.pop("sh", None)
            step.pop("h", None)
            steps.append(step)
        init = states.get(_hkey(full[:1]))
        if ok and init is not None:
            walks.append(dict(first=full[0], init=init, steps=steps))
    res["wall_s"] = wall
    res["edges"] = len(edges)
    res["histories"] = len(walks)
    return walks, res


def sany(spec_path):
    p = subprocess.run(["java", "-cp", _classpath(), "tla2sany.SANY", spec_path], capture_output=True, text=True,
                       cwd=os.path.dirname(spec_path))
    ok = p.returncode == 0 and "Semantic errors" not in p.stdout and "Parse Error" not in p.stdout \
        and "Could not parse" not in p.stdout and "*** Errors" not in p.stdout
    return ok, p.stdout[-2000:]
