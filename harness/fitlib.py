"""Catalogue of small real fits, the abstract mutators / observables the specifications talk about, and comparators.

Used by the replays of FitCache (C03), cost (C01), ndf (C10), Minimizer (C08), FileIO (C09), Format (C17), PlotView (C18).
"""
import io
import warnings

import numpy as np

FIT_TYPES = ("xy", "indexed", "hist", "unbinned")

X0 = [1.0, 2.0, 3.0, 4.0]
Y0 = [2.3, 4.2, 7.5, 9.4]
X1 = [1.0, 2.0, 3.0, 4.5]
Y1 = [1.9, 4.4, 7.1, 10.2]
H0 = [0.3, 0.8, 1.1, 1.4, 1.6, 1.9, 2.1, 2.2, 2.4, 2.5, 2.6, 2.7, 2.9, 3.0, 3.1, 3.3, 3.4, 3.6, 3.9, 4.2, 4.6, 2.45, 2.55, 1.7, 3.2]
H1 = [0.5, 0.9, 1.2, 1.5, 1.8, 2.0, 2.2, 2.3, 2.5, 2.6, 2.8, 2.9, 3.1, 3.2, 3.5, 3.7, 4.1, 4.4, 2.4, 2.7, 1.3, 3.0]


def lin_idx(a, b):
    return a * np.array([1.0, 2.0, 3.0, 4.0]) + b       # self-contained: model functions are saved as source text


def normal_density(x, mu=2.5, sigma=1.0):
    return np.exp(-0.5 * ((x - mu) / sigma) ** 2) / np.sqrt(2.0 * np.pi * sigma ** 2)


XQ = [0.0, 1.0, 2.0, 3.0, 4.0, 5.0, 6.0]
YQ = [1.1, 1.7, 3.4, 6.2, 10.8, 16.1, 23.6]


def quad_model(x, a=0.5, b=0.2, c=1.0):
    return a * x ** 2 + b * x + c


PARAMS = {"xyq": ("a", "b", "c"), "xy": ("a", "b"), "indexed": ("a", "b"), "hist": ("mu", "sigma"), "unbinned": ("mu", "sigma")}
PVALS = {"xyq": {"a": (0.5, 0.7), "b": (0.2, -0.1), "c": (1.0, 1.5)}, "xy": {"a": (1.0, 2.5), "b": (1.0, 0.4)}, "indexed": {"a": (1.0, 2.5), "b": (1.0, 0.4)},
         "hist": {"mu": (2.5, 2.2), "sigma": (1.0, 1.3)}, "unbinned": {"mu": (2.5, 2.2), "sigma": (1.0, 1.3)}}

# uncertainty-source catalogue:  name -> (axis, relative, reference, kind, size, correlation)
SOURCES = {
    "ey1": dict(axis="y", rel=False, ref="data", kind="simple", size=0.3, corr=0.0),
    "ey2": dict(axis="y", rel=True, ref="data", kind="simple", size=0.05, corr=0.5),
    "ey3": dict(axis="y", rel=False, ref="data", kind="matrix", size=0.2, corr=0.3),
    "em1": dict(axis="y", rel=False, ref="model", kind="simple", size=0.2, corr=0.0),
    "em2": dict(axis="y", rel=True, ref="model", kind="simple", size=0.04, corr=0.0),
    "ex1": dict(axis="x", rel=False, ref="data", kind="simple", size=0.1, corr=0.0),
    "ex2": dict(axis="x", rel=True, ref="model", kind="simple", size=0.02, corr=1.0),
}
CONSTRAINTS = {
    "c1": dict(kind="simple", name=0, value=2.0, unc=0.5),
    "c2": dict(kind="matrix", values=(2.0, 0.7), cov=((0.25, 0.05), (0.05, 0.16))),
    "c3": dict(kind="simple", name=1, value=0.5, unc=0.1, relative=True),
    "c4": dict(kind="matrix", values=(2.0, 0.7), cov=((0.04, 0.01), (0.01, 0.09)), relative=True),
}


def make_data(ftype, ds):
    from kafe2 import HistContainer, XYContainer, IndexedContainer
    if ftype == "xyq":
        return [XQ, YQ]
    if ftype == "xy":
        if ds == "d0":
            return [X0, Y0]
        if ds == "d1":
            return [X1, Y1]
        c = XYContainer(X1, Y1)
        c.add_error("y", 0.4, name="own")
        return c
    if ftype == "indexed":
        if ds == "d0":
            return list(Y0)
        if ds == "d1":
            return list(Y1)
        c = IndexedContainer(Y1)
        c.add_error(0.4, name="own")
        return c
    if ftype == "hist":
        if ds == "d1":      # the NumPy-histogram input form (heights, edges)
            return (np.histogram(H1, bins=5, range=(0.0, 5.0))[0].astype(float), np.linspace(0.0, 5.0, 6))
        c = HistContainer(n_bins=5, bin_range=(0.0, 5.0), fill_data=H0 if ds == "d0" else H1)
        if ds == "d2":
            c.add_error(0.4, name="own")
        return c
    if ftype == "unbinned":
        return list(H0 if ds == "d0" else H1)
    raise ValueError(ftype)


def make_fit(ftype, minimizer="iminuit", dea="nonlinear", cost=None, ds="d0"):
    from kafe2 import HistFit, IndexedFit, UnbinnedFit, XYFit
    warnings.simplefilter("ignore")
    kw = dict(minimizer=minimizer)
    if ftype == "xyq":
        return XYFit(make_data(ftype, ds), quad_model, cost_function=cost or "chi2", dynamic_error_algorithm=dea, **kw)
    if ftype == "xy":
        return XYFit(make_data(ftype, ds), cost_function=cost or "chi2", dynamic_error_algorithm=dea, **kw)
    if ftype == "indexed":
        return IndexedFit(make_data(ftype, ds), lin_idx, cost_function=cost or "chi2", dynamic_error_algorithm=dea, **kw)
    if ftype == "hist":
        return HistFit(make_data(ftype, ds), normal_density, cost_function=cost or "nll", dynamic_error_algorithm=dea, **kw)
    if ftype == "unbinned":
        return UnbinnedFit(make_data(ftype, ds), normal_density, **kw)
    raise ValueError(ftype)


def _n(fit):
    return fit.data_size


def add_source(fit, ftype, name, spec=None):
    s = spec or SOURCES[name]
    n = _n(fit)
    pre = (s["axis"],) if ftype in ("xy", "xyq") else ()
    if s["kind"] == "simple":
        return fit.add_error(*pre, err_val=s["size"], name=name, correlation=s["corr"], relative=s["rel"], reference=s["ref"])
    cor = np.full((n, n), s["corr"]) + np.eye(n) * (1.0 - s["corr"])
    cov = cor * s["size"] ** 2
    return fit.add_matrix_error(*pre, err_matrix=cov, matrix_type="cov", name=name, relative=s["rel"], reference=s["ref"])


def add_constraint(fit, ftype, cname):
    c = CONSTRAINTS[cname]
    names = PARAMS[ftype]
    if c["kind"] == "simple":
        return fit.add_parameter_constraint(names[c["name"]], c["value"], c["unc"], relative=c.get("relative", False))
    return fit.add_matrix_parameter_constraint(list(names)[:len(c["values"])], list(c["values"]), np.array(c["cov"]), relative=c.get("relative", False))


def apply_action(fit, ftype, a):
    """Execute one abstract mutator.  Returns 'none' or 'reject:<exc>'."""
    name = a["name"]
    try:
        if name == "AddSource":
            add_source(fit, ftype, a["n"])
        elif name == "Disable":
            fit.disable_error(a["n"])
        elif name == "Enable":
            fit.enable_error(a["n"])
        elif name == "AddConstraint":
            add_constraint(fit, ftype, a["c"])
        elif name == "SetParam":
            fit.set_parameter_values(**{a["p"]: PVALS[ftype][a["p"]][a["i"]]})
        elif name == "SetAllParams":
            fit.set_all_parameter_values([PVALS[ftype][p][a["i"]] for p in PARAMS[ftype]])
        elif name == "Fix":
            fit.fix_parameter(a["p"])
        elif name == "FixAt":
            fit.fix_parameter(a["p"], PVALS[ftype][a["p"]][a["i"]])
        elif name == "Release":
            fit.release_parameter(a["p"])
        elif name == "Limit":
            v = PVALS[ftype][a["p"]]
            fit.limit_parameter(a["p"], min(v) - 1.0, max(v) + 1.5)
        elif name == "Unlimit":
            fit.unlimit_parameter(a["p"])
        elif name == "SetData":
            fit.data = make_data(ftype, a["d"])
        elif name == "DoFit":
            fit.do_fit()
        elif name == "SetParamUnknown":
            # a known name first, then the unknown one: nothing may have been assigned when the call raises
            first = PARAMS[ftype][0]
            fit.set_parameter_values(**{first: float(fit.parameter_name_value_dict[first]) + 1.7, "no_such_parameter": 1.0})
        elif name == "FixUnknown":
            fit.fix_parameter("no_such_parameter")
        elif name == "LimitUnknown":
            fit.limit_parameter("no_such_parameter", 0.0, 1.0)
        elif name == "DisableUnknown":
            fit.disable_error("no_such_error")
        elif name == "AddConstraintUnknown":
            fit.add_parameter_constraint("no_such_parameter", 1.0, 0.1)
        elif name == "ConstraintNonSymmetric":
            fit.add_matrix_parameter_constraint(list(PARAMS[ftype]), [1.0, 1.0], [[0.04, 0.01], [0.02, 0.09]])
        elif name == "ConstraintWrongShape":
            fit.add_matrix_parameter_constraint(list(PARAMS[ftype]), [1.0, 1.0], [[0.04, 0.0, 0.0], [0.0, 0.09, 0.0], [0.0, 0.0, 0.01]])
        elif name == "ConstraintCorDiagonal":
            fit.add_matrix_parameter_constraint(list(PARAMS[ftype]), [1.0, 1.0], [[1.0, 0.1], [0.1, 0.9]], matrix_type="cor", uncertainties=[0.1, 0.1])
        elif name == "ConstraintLengthMismatch":
            fit.add_matrix_parameter_constraint(list(PARAMS[ftype]), [1.0], [[0.04]])
        elif name == "SetAllParamsWrongLength":
            fit.set_all_parameter_values([1.0] * (len(PARAMS[ftype]) + 1))
        elif name == "LimitNoBounds":
            fit.limit_parameter(PARAMS[ftype][0])
        elif name == "AddSourceUnknownAxis":
            if ftype == "xy":
                fit.add_error("z", err_val=0.1, name="bad")
            else:
                fit.add_error(err_val=0.1, name="bad", reference="elsewhere")
        elif name in ("SetDataPoissonNegative", "SetDataPoissonFractional"):
            bad = (np.array([2.0, -1.0, 9.0, 7.0, 2.0]) if name.endswith("Negative") else np.array([2.0, 5.5, 9.0, 7.0, 2.0]), np.linspace(0.0, 5.0, 6))
            # every Poisson likelihood must refuse such data: the likelihood-ratio variant is tried on a fit of its own first
            side = make_fit("hist", cost="nllr")
            try:
                side.data = bad
            except Exception:
                pass
            else:
                return "none"           # accepted by the likelihood-ratio variant: reported as an accepted invalid call
            fit.data = bad
        elif name == "SetDataWrongType":
            from kafe2 import IndexedContainer
            fit.data = IndexedContainer([1.0, 2.0, 3.0])
        elif name == "AddSourceBad":
            n = _n(fit)
            pre = ("y",) if ftype == "xy" else ()
            bad = a["bad"]
            if bad == "size":
                fit.add_error(*pre, err_val=np.ones(n + 1) * 0.1, name="bad")
            elif bad == "negative":
                fit.add_error(*pre, err_val=np.array([0.1] * (n - 1) + [-0.1]), name="bad")
            elif bad == "corr":
                fit.add_error(*pre, err_val=0.1, correlation=1.5, name="bad")
            elif bad == "duplicate":
                add_source(fit, ftype, a["n"])
            elif bad == "reference":
                fit.add_error(*pre, err_val=0.1, name="bad", reference="nothing")
            else:
                raise RuntimeError("fitlib: unknown bad kind")
        else:
            raise RuntimeError("fitlib: unknown action %r" % name)
    except RuntimeError as exc:
        if "fitlib" in str(exc):
            raise
        return "reject:%s" % type(exc).__name__
    except Exception as exc:
        return "reject:%s" % type(exc).__name__
    return "none"


# ---------------------------------------------------------------------------------------------------
# observables

def _attr(ftype, xy, other):
    return xy if ftype in ("xy", "xyq") else other


OBS = ("cost", "model", "data", "data_error", "data_cov", "model_error", "model_cov", "total_error", "total_cov", "total_inv",
       "x_total_error", "ndf", "gof", "chi2p", "pvals", "perrs", "pcov", "did_fit", "has_errors", "result", "fixed", "limited")


def read_obs(fit, ftype, o):
    if o == "cost":
        return fit.cost_function_value
    if o == "model":
        return fit.y_model if ftype in ("xy", "xyq") else fit.model
    if o == "data":
        return fit.data
    if o == "data_error":
        return getattr(fit, _attr(ftype, "y_data_error", "data_error"))
    if o == "data_cov":
        return getattr(fit, _attr(ftype, "y_data_cov_mat", "data_cov_mat"))
    if o == "model_error":
        return getattr(fit, _attr(ftype, "y_model_error", "model_error"))
    if o == "model_cov":
        return getattr(fit, _attr(ftype, "y_model_cov_mat", "model_cov_mat"))
    if o == "total_error":
        return fit.total_error
    if o == "total_cov":
        return fit.total_cov_mat
    if o == "total_inv":
        return fit.total_cov_mat_inverse
    if o == "x_total_error":
        return fit.x_total_error if ftype in ("xy", "xyq") else None
    if o == "ndf":
        return fit.ndf
    if o == "gof":
        return fit.goodness_of_fit
    if o == "chi2p":
        return fit.chi2_probability
    if o == "pvals":
        return np.array(fit.parameter_values, dtype=float)
    if o == "perrs":
        return fit.parameter_errors
    if o == "pcov":
        return fit.parameter_cov_mat
    if o == "did_fit":
        return bool(fit.did_fit)
    if o == "has_errors":
        return bool(fit.has_errors)
    if o == "fixed":
        return sorted(fit._fitter.fixed_parameters.keys())
    if o == "limited":
        return sorted(fit._fitter.limited_parameters.keys())
    if o == "result":
        d = fit.get_result_dict()
        return {k: d[k] for k in ("did_fit", "cost", "ndf", "goodness_of_fit", "chi2_probability", "parameter_values",
                                  "parameter_errors", "parameter_cov_mat")}
    if o == "report":
        buf = io.StringIO()
        fit.report(output_stream=buf)
        return buf.getvalue()
    raise ValueError(o)


def safe_read(fit, ftype, o):
    try:
        return ("value", read_obs(fit, ftype, o))
    except Exception as exc:
        return ("raise", "%s: %s" % (type(exc).__name__, str(exc)[:100]))


POSTFIT_SENSITIVE = ("perrs", "pcov")


def _arr(v):
    if v is None:
        return None
    if isinstance(v, dict):
        return None
    return np.asarray(v, dtype=float)


def compare(o, got, ref, fitted=False, sigma=None):
    """Return None if equal under the rules of DESIGN 3.3, else a short description.
    got / ref are ('value', v) or ('raise', text)."""
    if got[0] != ref[0]:
        return "one side raised: %r vs %r" % (_short(got), _short(ref))
    if got[0] == "raise":
        return None
    a, b = got[1], ref[1]
    if isinstance(a, dict) and isinstance(b, dict):
        for k in b:
            if k not in a:
                return "missing key %s" % k
            sub = "pvals" if k == "parameter_values" else ("perrs" if k == "parameter_errors" else ("pcov" if k == "parameter_cov_mat" else k))
            va = list(a[k].values()) if isinstance(a[k], dict) else a[k]
            vb = list(b[k].values()) if isinstance(b[k], dict) else b[k]
            d = compare(sub, ("value", va), ("value", vb), fitted, sigma)
            if d:
                return "%s: %s" % (k, d)
        return None
    if isinstance(a, (bool, str)) or isinstance(b, (bool, str)) or isinstance(a, list) and a and isinstance(a[0], str):
        return None if a == b else "%r != %r" % (a, b)
    if a is None or b is None:
        return None if (a is None and b is None) else "%r vs %r" % (_short(("v", a)), _short(("v", b)))
    A, B = np.asarray(a, dtype=float), np.asarray(b, dtype=float)
    if A.shape != B.shape:
        return "shape %s vs %s" % (A.shape, B.shape)
    if np.array_equal(np.isnan(A), np.isnan(B)) and np.all(np.isnan(A)):
        return None
    if not fitted:
        ok = np.allclose(A, B, rtol=1e-9, atol=1e-12, equal_nan=True)
    elif o == "pvals" and sigma is not None and np.all(np.isfinite(np.asarray(sigma, dtype=float))):
        # a parameter without uncertainty (fixed after the fit, at its fitted value): 1e-3 of its magnitude stands in for sigma
        sg = np.asarray(sigma, dtype=float)
        sg = np.where(sg > 0, sg, 1e-3 * np.maximum(np.abs(B), 1e-3)) if sg.shape == B.shape else np.maximum(sg, 1e-12)
        ok = np.all(np.abs(A - B) <= 0.02 * sg + 1e-9)
    elif o == "pcov" and A.ndim == 2 and A.shape[0] == A.shape[1]:
        # covariances are compared on the scale of the uncertainties: an off-diagonal element near zero is noise of size ~1e-3 sigma_i sigma_j
        dg = np.sqrt(np.abs(np.diag(B)))
        ok = bool(np.all(np.abs(np.nan_to_num(A) - np.nan_to_num(B)) <= 0.05 * np.abs(np.nan_to_num(B)) + 2e-3 * np.outer(dg, dg) + 1e-12)) \
            and np.array_equal(np.isnan(A), np.isnan(B))
    elif o in POSTFIT_SENSITIVE:
        ok = np.allclose(A, B, rtol=0.05, atol=1e-6, equal_nan=True)
    else:
        ok = np.allclose(A, B, rtol=2e-3, atol=1e-3, equal_nan=True)
    return None if ok else "%s vs %s" % (_short(("v", A)), _short(("v", B)))


def _short(x):
    v = x[1]
    if isinstance(v, np.ndarray):
        return np.array2string(v.ravel()[:6], precision=6)
    return repr(v)[:120]
