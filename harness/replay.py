"""Run replay functions over many walks in a process pool (fresh interpreter state per chunk is not needed:
every walk builds its own objects)."""
import multiprocessing as mp
import os
import signal
import warnings

WALK_TIMEOUT_S = 300


class WalkTimeout(BaseException):
    """a single walk did not finish (BaseException: must not be swallowed by `except Exception` in the code under test)"""


def _on_alarm(signum, frame):
    raise WalkTimeout()


def _init(pool_worker=False):
    warnings.simplefilter("ignore")
    os.environ.setdefault("MPLBACKEND", "Agg")
    # the C++ minimiser writes diagnostics straight to fd 2; kafe2 prints warnings to fd 1 (results travel through the pool's pipes)
    try:
        devnull = os.open(os.devnull, os.O_WRONLY)
        os.dup2(devnull, 2)
        if pool_worker:
            os.dup2(devnull, 1)
    except OSError:
        pass


def _run_chunk(args):
    fn, chunk = args
    out = []
    try:
        signal.signal(signal.SIGALRM, _on_alarm)
        can_alarm = True
    except ValueError:          # not in the main thread
        can_alarm = False
    for idx, w in chunk:
        try:
            if can_alarm:
                signal.alarm(WALK_TIMEOUT_S)
            issues = fn(w)
        except WalkTimeout:
            issues = [dict(kind="machinery", signature="replay of one walk did not finish within %d s" % WALK_TIMEOUT_S, detail=repr(w)[:1500], step=-1)]
        except Exception as exc:  # harness failure on this walk: machinery, reported as such
            import traceback
            issues = [dict(kind="machinery", signature="replay crashed: %r" % (exc,), detail=traceback.format_exc()[-1500:], step=-1)]
        finally:
            if can_alarm:
                signal.alarm(0)
        if issues:
            out.append((idx, issues))
    return out


def replay_parallel(walks, fn, procs=16, chunk=200):
    """walks: list of walk objects; fn(walk) -> list of issues. Returns list of (walk index, issues)."""
    items = list(enumerate(walks))
    chunks = [(fn, items[i:i + chunk]) for i in range(0, len(items), chunk)]
    if len(chunks) <= 1 or procs <= 1:
        _init()
        res = [_run_chunk(c) for c in chunks]
    else:
        ctx = mp.get_context("fork")
        with ctx.Pool(min(procs, len(chunks)), initializer=_init, initargs=(True,)) as pool:
            res = pool.map(_run_chunk, chunks)
    out = []
    for r in res:
        out.extend(r)
    out.sort(key=lambda x: x[0])
    return out
