"""Run replay functions over many walks in a process pool (fresh interpreter state per chunk is not needed:
every walk builds its own objects)."""
import multiprocessing as mp
import os
import warnings


def _init():
    warnings.simplefilter("ignore")
    os.environ.setdefault("MPLBACKEND", "Agg")
    # the C++ minimiser writes diagnostics straight to fd 2
    try:
        devnull = os.open(os.devnull, os.O_WRONLY)
        os.dup2(devnull, 2)
    except OSError:
        pass


def _run_chunk(args):
    fn, chunk = args
    out = []
    for idx, w in chunk:
        try:
            issues = fn(w)
        except Exception as exc:  # harness failure on this walk: machinery, reported as such
            import traceback
            issues = [dict(kind="machinery", signature="replay crashed: %r" % (exc,), detail=traceback.format_exc()[-1500:], step=-1)]
        if issues:
            out.append((idx, issues))
    return out


def replay_parallel(walks, fn, procs=16, chunk=200):
    """walks: list of walk objects; fn(walk) -> list of issues. Returns list of (walk index, issues)."""
    items = list(enumerate(walks))
    chunks = [(fn, items[i:i + chunk]) for i in range(0, len(items), chunk)]
    if len(chunks) <= 1 or procs <= 1:
        _init()
        res = [_run_chunk(c) for c in chunks]
    else:
        ctx = mp.get_context("fork")
        with ctx.Pool(min(procs, len(chunks)), initializer=_init) as pool:
            res = pool.map(_run_chunk, chunks)
    out = []
    for r in res:
        out.extend(r)
    out.sort(key=lambda x: x[0])
    return out
