"""Export the computation graph of a real fit (constructed from /repo's working tree) as TLA+ constants for FitCache.tla."""
import warnings

from . import fitlib as fl

SRC_BY_TYPE = {"xy": ["ey1", "ey2", "ey3", "em1", "em2", "ex1", "ex2"], "indexed": ["ey1", "ey2", "ey3", "em1", "em2"],
               "hist": ["ey1", "ey2", "ey3", "em1", "em2"], "unbinned": []}
DATA_NODES = {"xy": ["x_data", "y_data"], "indexed": ["data"], "hist": ["data"], "unbinned": ["x", "data"]}


def hidden_of(name, is_cost, ftype="xy"):
    """What a zero-argument property node REALLY reads, by the meaning of its documented name (DESIGN appendix D)."""
    if is_cost:
        return {"K"}
    if name in ("x_data", "y_data", "data", "x_model", "x"):
        return {"D"}
    if name in ("y_model", "model"):
        # xy: model values at the data x; histogram: bin edges and number of entries; unbinned: density at the data
        # indexed: a function of the parameters only
        return {"P"} if ftype == "indexed" else {"P", "D"}
    if name.endswith("data_error") or name.endswith("data_cov_mat"):
        return {"Sd", "D"}
    if name in ("x_model_error", "x_model_cov_mat"):
        return {"Sm", "D"}
    if name in ("y_model_error", "y_model_cov_mat", "model_error", "model_cov_mat"):
        return {"Sm", "P"} if ftype == "indexed" else {"Sm", "P", "D"}
    if name == "parameter_constraints":
        return {"K"}
    return set()


def export(ftype):
    from kafe2.core.fitters import nexus as nx
    warnings.simplefilter("ignore")
    fresh = fl.make_fit(ftype)
    init_cost = fresh._cost_function.name
    fit = fl.make_fit(ftype)
    if ftype != "unbinned":
        fl.add_source(fit, ftype, "ey1")
    cost_cov = fit._cost_function.name
    cost_point = fit._cost_function_pointwise.name if fit._cost_function_pointwise is not None else "-"
    nodes = fit._nexus._nodes
    cost_noerr = "chi2_no_errors" if (init_cost == "chi2_no_errors" and "chi2_no_errors" in nodes) else "-"
    roots = [n for n in ("cost", cost_cov, cost_point, cost_noerr, "total_error", "total_cov_mat", init_cost) if n in nodes]
    seen, todo = [], list(roots)
    while todo:
        n = todo.pop()
        if n in seen:
            continue
        seen.append(n)
        todo.extend(c.name for c in nodes[n].get_children())
    seen = sorted(seen)
    kind, children = {}, {}
    for n in seen:
        node = nodes[n]
        kind[n] = ("param" if isinstance(node, nx.Parameter) else "alias" if isinstance(node, nx.Alias)
                   else "array" if isinstance(node, nx.Tuple) else "func")
        children[n] = [c.name for c in node.get_children()]
    cost_names = {cost_cov, cost_point, cost_noerr, init_cost} - {"-"}
    hidden = {n: sorted(hidden_of(n, n in cost_names, ftype)) for n in seen}
    cls = type(fit)
    sizes = {}
    for ds in ("d0", "d1", "d2"):
        sizes[ds] = fl.make_fit(ftype, ds=ds).data_size if ftype != "unbinned" or ds != "d2" else fl.make_fit(ftype, ds="d1").data_size
    return dict(ftype=ftype, nodes=seen, kind=kind, children=children, hidden=hidden,
                basic=sorted(set(cls._BASIC_ERROR_NAMES) & set(seen)), data_nodes=sorted(set(DATA_NODES[ftype]) & set(seen)),
                model_err=sorted(set(cls._MODEL_ERROR_NODE_NAMES) & set(seen)),
                projected=sorted(set(getattr(cls, "_PROJECTED_NODE_NAMES", [])) & set(seen)),
                params=list(fit.parameter_names), cost_noerr=cost_noerr,
                cost_cov=cost_cov if cost_noerr != "-" else "-", cost_point=cost_point, init_cost=init_cost, ndata=sizes,
                srcs=SRC_BY_TYPE[ftype])


def _s(x):
    return '"%s"' % x


def _set(xs):
    return "{" + ", ".join(_s(x) for x in xs) + "}"


def _seq(xs):
    return "<<" + ", ".join(_s(x) for x in xs) + ">>"


def _fun(d, val):
    items = ["%s :> %s" % (_s(k), val(v)) for k, v in d.items()]
    return "(" + " @@ ".join(items) + ")" if items else "<<>>"


def tla_module(g, base="FitCache", name="FCRun"):
    """A wrapper module defining the exported graph; the cfg substitutes the constants with these definitions."""
    lines = ["---- MODULE %s ----" % name, "EXTENDS %s" % base,
             "XNodes == " + _set(g["nodes"]),
             "XKind == " + _fun(g["kind"], _s),
             "XChildren == " + _fun(g["children"], _seq),
             "XHidden == " + _fun(g["hidden"], _set),
             "XBasic == " + _set(g["basic"]), "XDataNodes == " + _set(g["data_nodes"]),
             "XModelErr == " + _set(g["model_err"]), "XProjected == " + _set(g["projected"]),
             "XParams == " + _seq(g["params"]),
             "XNData == " + _fun(g["ndata"], str),
             "XSrcNames == " + _set(g["srcs"]),
             "===="]
    return "\n".join(lines) + "\n"


def cfg_constants(g, dea, depth, max_sources=2, off=(), faults=(), cons=("c1", "c2"), obs_filter=(), reload=False):
    off = tuple(off) + (() if reload else ("Reload",))
    return {"FitType": _s(g["ftype"]), "GNodes": ("<-", "XNodes"), "GKind": ("<-", "XKind"), "GChildren": ("<-", "XChildren"),
            "GHidden": ("<-", "XHidden"), "GBasic": ("<-", "XBasic"), "GDataNodes": ("<-", "XDataNodes"),
            "GModelErr": ("<-", "XModelErr"), "GProjected": ("<-", "XProjected"), "GParams": ("<-", "XParams"),
            "GCostNoErr": _s(g["cost_noerr"]), "GCostCov": _s(g["cost_cov"]), "GCostPoint": _s(g["cost_point"]),
            "GInitCost": _s(g["init_cost"]), "NData": ("<-", "XNData"), "SrcNames": ("<-", "XSrcNames"),
            "ConNames": list(cons), "Dea": _s(dea), "MaxSources": max_sources, "MaxDepth": depth, "Off": list(off), "Faults": list(faults), "ObsFilter": list(obs_filter)}
