"""Shared plumbing: verdict bookkeeping, evidence files, known findings, replay files."""
import hashlib
import json
import os
import re
import subprocess
import sys
import time

ROOT = os.path.dirname(os.path.dirname(os.path.abspath(__file__)))
# seed evaluation (tools/seed_eval.py --in-worktree) points the harness at a scratch worktree and keeps its evidence out of /verif/evidence
EVIDENCE_DIR = os.environ.get("KAFE2_VERIF_EVIDENCE_DIR") or os.path.join(ROOT, "evidence")
REPLAY_DIR = os.path.join(ROOT, "replays")
FINDINGS_FILE = os.path.join(ROOT, "known_findings.txt")


def repo_head():
    try:
        return subprocess.run(["git", "-C", "/repo", "rev-parse", "--short", "HEAD"], capture_output=True, text=True).stdout.strip()
    except Exception:
        return "?"


def assert_repo_import():
    import kafe2
    f = os.path.realpath(kafe2.__file__)
    tree = os.path.realpath(os.environ.get("KAFE2_VERIF_TREE") or "/repo") + "/"
    if not f.startswith(tree):
        raise RuntimeError("kafe2 is imported from %s, not from %s" % (f, tree))


# --------------------------------------------------------------------------------------
# known findings:   open: property=C04 id=KF-C04-FALLBACK <text>
#                   fixed: property=C04 <commit> <text>

class Findings:
    def __init__(self, path=FINDINGS_FILE):
        self.open = {}      # id -> (property, text)
        self.fixed = []
        if os.path.exists(path):
            for line in open(path):
                line = line.strip()
                if not line or line.startswith("#"):
                    continue
                m = re.match(r"open:\s+property=(C\d+)\s+id=(\S+)\s+(.*)", line)
                if m:
                    self.open[(m.group(1), m.group(2))] = (m.group(1), m.group(3))
                    continue
                m = re.match(r"fixed:\s+property=(C\d+)\s+(\S+)\s+(.*)", line)
                if m:
                    self.fixed.append((m.group(1), m.group(2), m.group(3)))

    def is_open(self, kf_id, prop):
        return (prop, kf_id) in self.open


class Report:
    """Collects what one run of one check saw."""

    def __init__(self, prop, tier, seed, level):
        self.prop, self.tier, self.seed, self.level = prop, tier, seed, level
        self.t0 = time.time()
        self.violations = []     # dicts: signature, detail, replay
        self._sigs = set()
        self.known = {}          # kf id -> count
        self.drift = []
        self.notes = []
        self.coverage = {"samples": []}
        self.assumptions = []
        self.findings = Findings()
        self.machinery_error = None

    # -- verdicts
    def violation(self, signature, detail, replay_obj=None, kf=None):
        """kf: id of a known finding this failure matches (decided by the caller's predicate)."""
        if kf and self.findings.is_open(kf, self.prop):
            self.known[kf] = self.known.get(kf, 0) + 1
            return
        path = None
        first_of_kind = signature not in self._sigs
        self._sigs.add(signature)
        if replay_obj is not None and (len(self.violations) < 10 or (first_of_kind and len(self._sigs) < 40)):
            path = save_replay(self.prop, signature, replay_obj)
        if len(self.violations) < 200:
            self.violations.append({"signature": signature, "detail": detail, "replay": path})
        else:
            self.violations.append({"signature": signature, "replay": path, "detail": detail if first_of_kind else None})

    def add_drift(self, text):
        if len(self.drift) < 50:
            self.drift.append(text)

    def note(self, text):
        self.notes.append(text)

    def sample(self, obj, cap=6):
        if len(self.coverage["samples"]) < cap:
            self.coverage["samples"].append(obj)

    def bump(self, key, n=1):
        self.coverage[key] = self.coverage.get(key, 0) + n

    # -- output
    def finish(self):
        wall = time.time() - self.t0
        os.makedirs(EVIDENCE_DIR, exist_ok=True)
        cov = dict(self.coverage)
        if not cov.get("samples"):
            cov["samples"] = ["(no sample recorded)"]
        cov.setdefault("trusted_base", [])
        ev = {
            "property_id": self.prop, "tier": self.tier, "seed": self.seed, "level": self.level,
            "coverage": cov, "assumptions": self.assumptions, "wall_s": round(wall, 2),
            "violations": len(self.violations),
            "known_findings_hit": self.known, "drift": self.drift, "notes": self.notes,
            "repo_head": repo_head(),
        }
        with open(os.path.join(EVIDENCE_DIR, self.prop + ".json"), "w") as f:
            json.dump(ev, f, indent=1, default=str)
        for kf, n in sorted(self.known.items()):
            print("KNOWN-FINDING: property=%s %s (%d occurrences) %s" % (self.prop, kf, n, self.findings.open[(self.prop, kf)][1]))
        for d in self.drift[:10]:
            print("DRIFT property=%s %s" % (self.prop, d))
        seen = set()
        for v in self.violations:
            if v["signature"] in seen:
                continue
            seen.add(v["signature"])
            print("VIOLATION property=%s replay=%s" % (self.prop, v.get("replay") or "-"))
            print("  signature: %s" % v["signature"])
            if v.get("detail"):
                print("  detail: %s" % (str(v["detail"])[:1500]))
        if self.violations:
            return 1
        print("OK property=%s tier=%s %s wall=%.1fs" % (self.prop, self.tier, _brief(cov), wall))
        return 0


def _brief(cov):
    keys = ["states", "transitions", "traces_validated_against_impl", "evaluations", "distinct_nontrivial"]
    return " ".join("%s=%s" % (k, cov[k]) for k in keys if k in cov)


def save_replay(prop, signature, obj):
    os.makedirs(REPLAY_DIR, exist_ok=True)
    h = hashlib.sha1((signature + json.dumps(obj, sort_keys=True, default=str)).encode()).hexdigest()[:10]
    path = os.path.join(REPLAY_DIR, "%s-%s.json" % (prop, h))
    obj = dict(obj)
    obj.setdefault("property", prop)
    obj.setdefault("signature", signature)
    obj.setdefault("repo_head", repo_head())
    with open(path, "w") as f:
        json.dump(obj, f, indent=1, default=str)
    return path


def cfg_set(xs):
    return "{" + ",".join('"%s"' % x for x in sorted(xs)) + "}"


def coverage_check(rep, mc, required_actions, ignore=()):
    """Vacuity: every action of the spec must have fired in the MC run."""
    missing = [a for a in required_actions if a not in ignore and mc["coverage"].get(a, (0, 0))[0] == 0]
    rep.coverage.setdefault("action_coverage", {}).update({a: mc["coverage"].get(a, (0, 0))[0] for a in required_actions})
    if missing:
        raise RuntimeError("vacuity: actions never taken in the model: %s" % missing)
