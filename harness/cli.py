"""./check <Cxx> --tier quick|thorough [--replay file]"""
import argparse
import importlib
import os
import sys
import traceback
import warnings

os.environ.setdefault("MPLBACKEND", "Agg")
os.environ.setdefault("PYTHONHASHSEED", "0")
os.environ.setdefault("KAFE2_VERIF", "1")
warnings.simplefilter("ignore")


def _prune_scratch():
    """empty per-process scratch directories left behind by earlier runs (build/ is not under version control)"""
    build = os.path.join(os.path.dirname(os.path.dirname(os.path.abspath(__file__))), "build")
    try:
        for name in os.listdir(build):
            if name.startswith("run-"):
                try:
                    os.rmdir(os.path.join(build, name))      # only succeeds when empty
                except OSError:
                    pass
    except OSError:
        pass


def main(argv=None):
    ap = argparse.ArgumentParser()
    ap.add_argument("prop")
    ap.add_argument("--tier", default=os.environ.get("VERIF_TIER", "quick"), choices=["quick", "thorough"])
    ap.add_argument("--replay", default=None)
    ap.add_argument("--seed", type=int, default=int(os.environ.get("VERIF_SEED", "0") or 0))
    args = ap.parse_args(argv)
    prop = args.prop.upper()
    _prune_scratch()
    try:
        from .core import assert_repo_import
        assert_repo_import()
        mod = importlib.import_module("harness.props.%s" % prop.lower())
        if args.replay:
            rep = mod.replay(args.replay, args.tier, args.seed)
        else:
            rep = mod.run(args.tier, args.seed)
        rc = rep.finish()
    except Exception:
        traceback.print_exc()
        print("MACHINERY-FAILURE property=%s (nothing can be concluded)" % prop)
        return 2
    return rc


if __name__ == "__main__":
    sys.exit(main())
