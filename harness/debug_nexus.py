import json, sys
from harness.adapters.nexus import NexusAdapter, to_json
r = json.load(open(sys.argv[1]))
w = r["walk"]
print(w["shape"]); print(w["init"])
ad = NexusAdapter(w["init"], w["shape"]["warm"])
def dump():
    for n, node in sorted(ad.nodes.items()):
        print("    ", n, type(node).__name__, "stale" if node.stale else "fresh", "frozen" if node.frozen else "",
              "ch=", [c.name for c in node.get_children()], "par=", sorted(p.name for p in node.get_parents()))
dump()
for e in w["steps"]:
    got = ad.step(e["a"])
    print(e["a"], "\n   spec:", e["o"], "ideal", e.get("ideal"), "\n   real:", got, "\n   flags spec", sorted(e["stale"]), sorted(e["frozen"]), "real", ad.flags())
    dump()
