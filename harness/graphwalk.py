"""Covering walks over the labelled transition graph printed by TLC (DESIGN 3.3, direction A).

edges: list of dicts with keys 's' (source key), 't' (target key), 'lvl' (level of the source state; 1 = initial)
Every edge is executed at least once: for an uncovered edge take the BFS-tree path to its source, the edge,
and extend greedily along uncovered edges.
"""
import random
from collections import defaultdict, deque


def intern_states(edges):
    ids = {}
    for e in edges:
        for k in ("s", "t"):
            v = e[k]
            if v not in ids:
                ids[v] = len(ids)
            e[k] = ids[v]
    return len(ids)


def covering_walks(edges, seed=0, max_len=12):
    """Return list of walks; a walk is a list of edge indices, starting at an initial state."""
    out = defaultdict(list)
    for i, e in enumerate(edges):
        out[e["s"]].append(i)
    inits = sorted({e["s"] for e in edges if e["lvl"] == 1})
    # BFS tree
    pred = {s: None for s in inits}
    dq = deque(inits)
    while dq:
        s = dq.popleft()
        for i in out[s]:
            t = edges[i]["t"]
            if t not in pred:
                pred[t] = i
                dq.append(t)

    def path_to(s):
        p = []
        while pred[s] is not None:
            i = pred[s]
            p.append(i)
            s = edges[i]["s"]
        p.reverse()
        return p

    rng = random.Random(seed)
    covered = [False] * len(edges)
    order = list(range(len(edges)))
    # deepest sources first: their prefixes cover shallow edges for free
    order.sort(key=lambda i: (-edges[i]["lvl"], rng.random()))
    walks = []
    for i in order:
        if covered[i]:
            continue
        if edges[i]["s"] not in pred:
            continue  # unreachable from an initial state: cannot happen for TLC output
        w = path_to(edges[i]["s"]) + [i]
        cur = edges[i]["t"]
        while len(w) < max_len:
            nxt = [j for j in out[cur] if not covered[j] and j not in w]
            if not nxt:
                break
            j = rng.choice(nxt)
            w.append(j)
            cur = edges[j]["t"]
        for j in w:
            covered[j] = True
        walks.append(w)
    return walks, sum(covered)
