#!/usr/bin/env python3
"""Regenerate the generated parts of DESIGN.md: the lists of fixed / open findings (6a) and the seed table (8a)."""
import os
import re
import subprocess

ROOT = os.path.dirname(os.path.dirname(os.path.abspath(__file__)))
p = os.path.join(ROOT, "DESIGN.md")
s = open(p).read()
fixed = [l.strip() for l in open(os.path.join(ROOT, "known_findings.txt")) if l.startswith("fixed:")]
openf = [l.strip() for l in open(os.path.join(ROOT, "known_findings.txt")) if l.startswith("open:")]


def short(l, n):
    l = l.replace("|", "/")
    return l if len(l) <= n else l[:n - 3] + "..."


def between(text, start_pat, end_pat, new):
    a = re.search(start_pat, text)
    b = re.search(end_pat, text[a.end():])
    return text[:a.end()] + new + text[a.end() + b.start():]


s = re.sub(r"### Genuine defects repaired \(\d+ `fix:` commits", "### Genuine defects repaired (%d `fix:` commits" % len(fixed), s)
s = between(s, r"17 \(scipy `profile` passes[^\n]*\n[^\n]*\n\n", r"\n### Open findings", "\n".join("* " + short(l[len("fixed: "):], 330) for l in fixed) + "\n")
s = between(s, r"### Open findings \(recorded, not repaired: the repair is not a small, safe patch\)\n\n", r"\nHow each is recognised", "\n".join("* " + short(l[len("open: "):], 700) for l in openf) + "\n")
tab = subprocess.run(["/venv/bin/python", os.path.join(ROOT, "tools", "seed_table.py")], capture_output=True, text=True).stdout
s = between(s, r"(?=\| seed \| file \| change \|)", r"\n## 9\. Build order", tab)
open(p, "w").write(s)
print("DESIGN.md refreshed: %d fixed, %d open" % (len(fixed), len(openf)))
