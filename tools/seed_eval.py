#!/venv/bin/python
"""Confirm a seeded defect in its scratch worktree, run the registered check against it on /repo, record the outcome.

usage: seed_eval.py <PROP> <src_dir_with_patch_demo_meta> <worktree> [--tier quick] [--name NAME]
"""
import argparse, json, os, shutil, subprocess, sys, time

ap = argparse.ArgumentParser()
ap.add_argument("prop"); ap.add_argument("src"); ap.add_argument("worktree")
ap.add_argument("--tier", default="quick"); ap.add_argument("--name", default=None); ap.add_argument("--check", default=None)
ap.add_argument("--skip-suite", action="store_true")
ap.add_argument("--in-worktree", action="store_true", help="run the check against the patched worktree (PYTHONPATH) instead of patching /repo")
a = ap.parse_args()
ROOT = os.path.dirname(os.path.dirname(os.path.abspath(__file__)))
patch = os.path.abspath(os.path.join(a.src, "patch.diff")); demo = os.path.abspath(os.path.join(a.src, "demo.py"))
env = dict(os.environ, PYTHONPATH=a.worktree, PYTHONDONTWRITEBYTECODE="1")
def sh(cmd, cwd=None, env=None, timeout=3600):
    p = subprocess.run(cmd, shell=True, cwd=cwd, env=env, capture_output=True, text=True, timeout=timeout)
    return p.returncode, (p.stdout + p.stderr)
res = {}
sh("git checkout -- . && git clean -fdq", cwd=a.worktree)
rc, out = sh("/venv/bin/python %s" % demo, cwd=a.worktree, env=env); res["demo_clean_rc"] = rc
rc, out = sh("git apply %s" % patch, cwd=a.worktree)
if rc != 0:
    print("patch does not apply:", out); sys.exit(2)
rc, out = sh("/venv/bin/python %s" % demo, cwd=a.worktree, env=env); res["demo_patched_rc"] = rc
if not a.skip_suite:
    rc, out = sh("/venv/bin/python -m pytest -q -p no:cacheprovider --timeout=900 kafe2/test --deselect kafe2/test/fit/test_containers_xy.py::TestDatastoreXYParametricModel::test_deriv_by_par",
                 cwd=a.worktree, env=env)
    res["suite_tail"] = out.strip().split("\n")[-1][-200:]
    res["suite_ok"] = rc == 0
sh("git checkout -- . && git clean -fdq", cwd=a.worktree)
ok = res["demo_clean_rc"] == 0 and res["demo_patched_rc"] != 0 and res.get("suite_ok", True)
res["confirmed"] = ok
# run the check: on /repo with the patch applied, or (--in-worktree) on the patched scratch worktree while /repo is left alone
check = a.check or a.prop
if a.in_worktree:
    head = sh("git -C /repo rev-parse HEAD")[1].strip()
    sh("git checkout -q --detach %s" % head, cwd=a.worktree)       # the scratch worktree follows /repo's current commit
    rc, out = sh("git apply %s" % patch, cwd=a.worktree)
    if rc != 0:
        print("patch does not apply to the current commit:", out); sys.exit(2)
    try:
        t0 = time.time()
        ev = "/tmp/seed-evidence-%d" % os.getpid()
        os.makedirs(ev, exist_ok=True)
        wenv = dict(os.environ, PYTHONPATH=a.worktree, KAFE2_VERIF_TREE=a.worktree, KAFE2_VERIF_EVIDENCE_DIR=ev, PYTHONDONTWRITEBYTECODE="1")
        rc, out = sh("./check %s --tier %s" % (check, a.tier), cwd=ROOT, env=wenv, timeout=7200)
        res["check"] = check; res["check_rc"] = rc; res["check_wall_s"] = round(time.time() - t0, 1); res["ran_on"] = "patched worktree"
        res["check_lines"] = [l for l in out.split("\n") if l.startswith("VIOLATION") or l.startswith("  signature") or l.startswith("OK ") or l.startswith("KNOWN") or l.startswith("MACHINERY")][:12]
        shutil.rmtree(ev, ignore_errors=True)
    finally:
        sh("git checkout -- . && git clean -fdq", cwd=a.worktree)
else:
    st = sh("git -C /repo status --short")[1].strip()
    if st:
        print("/repo is not clean, refusing:", st); sys.exit(2)
    rc, out = sh("git -C /repo apply %s" % patch)
    if rc != 0:
        print("patch does not apply to /repo:", out); sys.exit(2)
    try:
        t0 = time.time()
        rc, out = sh("./check %s --tier %s" % (check, a.tier), cwd=ROOT, timeout=7200)
        res["check"] = check; res["check_rc"] = rc; res["check_wall_s"] = round(time.time() - t0, 1)
        res["check_lines"] = [l for l in out.split("\n") if l.startswith("VIOLATION") or l.startswith("  signature") or l.startswith("OK ") or l.startswith("KNOWN") or l.startswith("MACHINERY")][:12]
    finally:
        sh("git -C /repo checkout -- .")
name = a.name or os.path.basename(os.path.normpath(a.src))
dst = os.path.join(ROOT, "seeded", "%s-%s" % (a.prop, name))
os.makedirs(dst, exist_ok=True)
shutil.copy(patch, dst); shutil.copy(demo, dst)
meta = json.load(open(os.path.join(a.src, "meta.json"))) if os.path.exists(os.path.join(a.src, "meta.json")) else {}
meta.update(property=a.prop, evaluation=res, detected=(res["check_rc"] == 1))
json.dump(meta, open(os.path.join(dst, "meta.json"), "w"), indent=1)
print(json.dumps(res, indent=1))
