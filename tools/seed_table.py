#!/usr/bin/env python3
"""Print the markdown table 'which check catches which seeded change' from /verif/seeded/*/meta.json."""
import glob
import json
import os
import re

ROOT = os.path.dirname(os.path.dirname(os.path.abspath(__file__)))
rows = []
for d in sorted(glob.glob(os.path.join(ROOT, "seeded", "*"))):
    m = json.load(open(os.path.join(d, "meta.json")))
    ev = m.get("evaluation", {})
    sig = next((l.strip()[len("signature: "):] for l in ev.get("check_lines", []) if l.strip().startswith("signature:")), "-")
    files = sorted(set(re.findall(r"^\+\+\+ b/(\S+)", open(os.path.join(d, "patch.diff")).read(), re.M)))
    summ = m["summary"].replace("|", "/").replace("\n", " ")
    if len(summ) > 230:
        summ = summ[:227] + "..."
    rows.append("| %s | %s | %s | %s | %s |" % (os.path.basename(d), ", ".join(os.path.basename(f) for f in files), summ,
                                             "yes" if m.get("detected") else "NO", sig.replace("|", "/")[:140]))
print("| seed | file | change | caught by `./check %s` (quick) | first signature |" % "<property>")
print("|---|---|---|---|---|")
print("\n".join(rows))
