#!/venv/bin/python
"""Run the repository's pinned suite (guard OFF) and compare with /root/.vp/BASELINE.json stable_pass."""
import json, os, subprocess, sys, tempfile
import xml.etree.ElementTree as ET
base = json.load(open("/root/.vp/BASELINE.json"))
out = os.path.join(os.path.dirname(os.path.dirname(os.path.abspath(__file__))), "build", "baseline.junit.xml")
os.makedirs(os.path.dirname(out), exist_ok=True)
env = dict(os.environ)
env.pop("KAFE2_VERIF", None)
cmd = base["cmd"].replace("<file>", out)
p = subprocess.run(cmd, shell=True, env=env, capture_output=True, text=True)
passed = set()
for tc in ET.parse(out).getroot().iter("testcase"):
    if not any(ch.tag in ("failure", "error", "skipped") for ch in tc):
        passed.add("%s::%s" % (tc.get("classname"), tc.get("name")))
missing = [t for t in base["stable_pass"] if t not in passed]
print("stable_pass: %d, passed now: %d, missing: %d" % (len(base["stable_pass"]), len(passed), len(missing)))
for t in missing[:30]:
    print("  NOT PASSING:", t)
sys.exit(1 if missing else 0)
