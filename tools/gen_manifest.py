#!/venv/bin/python
"""Generate MANIFEST.json from one table (kept here so that the file is always schema-valid)."""
import json, os
ROOT = os.path.dirname(os.path.dirname(os.path.abspath(__file__)))
props = [json.loads(l) for l in open(os.path.join(ROOT, "properties.jsonl"))]

CHECKS = {
    "C04": dict(
        category="model_checking", design_ref="DESIGN.md 4.1, 5/C04",
        technique="TLA+ spec Nexus.tla model-checked with TLC (9 graph shapes, all public node operations); every bounded history replayed on the real nexus nodes with a final read of every node (GenNexus path tree + simulation); executions of real fits and of the repository's own fit tests recorded at run time and validated against the property monitor TraceNexus.tla",
        text="TLC explores all histories of the graph mechanism up to the bound and checks ReadCorrect, AtMostOncePerRead, NoSpuriousRecompute, "
             "FreshIsIdeal, StaleUpwardClosed, Acyclic and RejectLeavesUnchanged in every state; every one of those histories is then executed on "
             "the real kafe2 nodes and each read is compared with the specification's ideal value (terms record what a value was computed from), "
             "so a stale read, a double evaluation, a spurious evaluation or an accepted cycle in the code is reported.",
        note="Trusted: TLC, the adapter harness/adapters/nexus.py (maps spec actions to public node/Nexus calls; user functions build terms and read "
             "dependency-only children as hidden inputs), bounded depth (3-4 actions exhaustively from cold and warm starts, deeper by simulation). "
             "Freezing a stale node is excluded (ambiguous in the statement)."),
    "C12": dict(
        category="model_checking", design_ref="DESIGN.md 4.6, 5/C12",
        technique="TLA+ spec HistFill.tla (merge loop of _fill_unprocessed transcribed iteration by iteration) model-checked with TLC; every bounded history of fills/reads/rebins replayed on real HistContainer objects",
        text="TLC checks CountsOnce, Conservation, EntriesKept, SortedCorrectly, the loop's iteration bound (termination) and RejectLeavesUnchanged over all "
             "edge sequences of the catalogue (non-uniform, repeated edges, inner-edge and n_bins constructors), all small multisets of entries (on, between, outside edges), "
             "all batchings and read/rebin interleavings in the bound; each history is executed on the real container and every read compared with the declarative half-open count.",
        note="Trusted: TLC, harness/adapters/histfill.py. Entries/edges are small integers; bounds: <= 4-5 entries, <= 4 edges, depth 5-6 in TLC, 2-4 steps exhaustively replayed, 12 by simulation."),
    "C13": dict(
        category="model_checking", design_ref="DESIGN.md 4.6, 5/C13",
        technique="TLA+ spec HistModel.tla (quadrature rules as exact integer arithmetic x 960 on polynomial densities, lazy stale flag, new model on new data, rebin) model-checked with TLC; every bounded history replayed on real HistFit / HistParametricModel objects for all 7 bin_evaluation modes and both density flags",
        text="TLC checks ModelFollowsParams, DensityScaling, the exactness classes (Simpson exact to degree 3 and not 4; trapezoid/midpoint exact to degree 1 and not 2) and the convergence orders "
             "(halving a bin divides the error of the first non-integrated monomial by exactly 16 / 4 / 4) over all polynomials, edge sequences and methods of the catalogue and all histories of "
             "parameter changes / data replacement / rebinning / reads in the bound; each history is executed on a real HistFit, a free-standing HistParametricModel and a smooth companion "
             "(normal + exponential mixture): bin contents, fit.model, eval_model_function_density compared with the spec's exact numbers, the smooth companion with its antiderivative within the textbook error bound of each rule.",
        note="Trusted: TLC, harness/adapters/histmodel.py. Polynomials degree <= 4 with integer coefficients, integer edges (3 edge sequences); tolerance 1e-12 relative (1e-9 for scipy quad)."),
    "C17": dict(
        category="model_checking", design_ref="DESIGN.md 4.10, 5/C17",
        technique="TLA+ spec Format.tla (ScalarFormatter / ParameterFormatter transcribed step by step in decimal integer arithmetic, ties as biases of the binary float) model-checked with TLC against the declarative half-unit statement; ReportView.tla (formatter copies refreshed at print time) model-checked; TLC-generated formatting jobs and report histories replayed on the real formatter and on real fits with parse-back",
        text="TLC checks Faithful (displayed uncertainty = n-significant-digit rounding, value within half a unit of the uncertainty's last digit, shown down to that digit when |value| >= uncertainty) for every "
             "mantissa pair of the grid (1..130 / 1..1200 and the neighbourhoods of 950, 995, 9995, 99995: the carry cases) x decimal exponents x 1..4 digits x tie biases, and ShownIsCurrent / FixedMarked for all histories of "
             "set / fix / release / add error / fit / show. 157k formatting jobs are executed on the real ParameterFormatter (plain, LaTeX, fixed, without uncertainty, unrounded, asymmetric) and parsed back; "
             "every report(), get_result_dict() and to_file() preface of the histories on five fit types is parsed back and compared with the numbers the fit holds, to half a unit of each number's own last digit.",
        note="Trusted: TLC, harness/adapters/format.py, harness/adapters/reportview.py. The LaTeX conversion strips trailing mantissa zeros in scientific notation: only the value clauses are checked there."),
    "C14": dict(
        category="model_checking", design_ref="DESIGN.md 4.9, 5/C14",
        technique="TLA+ spec Forms.tla (each abstract uncertainty source / parameter constraint with the set of concrete forms that denote it and their integer normal form, incl. the sign rule for relative sources on data of mixed sign) model-checked with TLC; TLC-generated declaration histories replayed as PAIRS of real fits (chosen form vs explicit covariance matrix) built through the Python API, the wrapper functions and YAML documents",
        text="TLC checks SidesDenoteTheSameProblem over all sequences of declarations (sources: absolute / relative, correlation 0, 1/2, 1; constraints: simple and matrix) in every admissible form for data of positive, mixed and negative sign. "
             "Each history is built twice for real -- scalar, vector, covariance, correlation + errors, absolute equivalents of relative sources, wrapper keywords, YAML shorthand (numbers, lists, percent strings, top-level keys, dict constraints) and explicit YAML, "
             "model as callable / library name / SymPy string / source text, fits built by class, generic Fit(), xy_fit / indexed_fit / hist_fit / unbinned_fit and YAML, parameters fixed (also at 0), limited (also at 0) and started through methods, wrapper keywords and YAML keys -- and total covariance, cost at three parameter points, constraint cost and do_fit results are compared pairwise and with the spec's normal form.",
        note="Trusted: TLC, harness/adapters/forms.py. 3 data points, 2 parameters; tolerance 1e-12 on covariances, 1e-9 on costs, 1e-2 sigma on fit results."),
    "C18": dict(
        category="exploration", design_ref="DESIGN.md 4.12, 5/C18",
        technique="TLA+ spec PlotView.tla (fit state versions, Plot object constructed at one version and drawn at a later one, wiring table artist -> observable per fit type / cost kind / panel) model-checked with TLC; TLC-generated histories of mutate / fit / make plot / draw(options) replayed on real fits rendered headless, every matplotlib artist compared with the fit's numbers",
        text="TLC checks DrawnIsCurrent (a draw shows the current version whatever happened since the Plot was made), PoissonTermIffPoissonCost, BandOnlyWithResults over all histories in the bound for 7 (fit type, cost) pairs with one fit, two fits, or two fits joined in a MultiFit (global lines of the legend). "
             "Each Draw renders a real plot: data markers, x / y error bars (total uncertainty (+) sqrt(counts) for Poisson costs; half bin width), model curve (model function at the current parameters), uncertainty band (numerical Jacobian x parameter covariance), "
             "histogram bars and density, index steps, ratio / residual / pull panels and their bands, legend numbers -- compared with observables read from the fit object and combined by the documented formulas.",
        note="Level exploration: the spec contributes the schedule and the wiring table, the comparison is by sampling histories. Trusted: TLC, harness/adapters/plotview.py, matplotlib containers. Asymmetric uncertainties are computed before plot() (the profiling wobble is C08's subject)."),
    "C02": dict(
        category="model_checking", design_ref="DESIGN.md 4.2, 5/C02",
        technique="TLA+ spec ErrorModel.tla (sources, reference modes, per-source and total caches, model stale flag, pending histogram entries) model-checked with TLC for 6 container kinds; every bounded history replayed on the real containers / parametric models against the spec's exact integer covariance",
        text="TLC checks ReadCorrect (total = sum of enabled sources at the CURRENT values), CachedTotalIsIdeal, SymmetricPSD and RejectLeavesUnchanged over all histories of "
             "add / disable / enable / data, x, y setters / fill / parameter changes / copies / reads up to the bound for indexed, xy, histogram containers and their parametric models; "
             "every history is executed on the real objects; err, cov_mat, cor_mat, cov_mat_inverse are compared with the spec's integer matrix (scale 200), disable+enable must restore the total bit-exactly.",
        note="Trusted: TLC, harness/adapters/errormodel.py, numpy on 2x2 matrices. Two data points, source catalogue of 6 (simple/matrix, abs/rel, cov/cor form, correlations 0, 0.5, 1), both signs of the reference. Unbinned containers accept no sources and are not modelled."),
    "C03": dict(
        category="model_checking", design_ref="DESIGN.md 4.3, 5/C03",
        technique="TLA+ spec FitCache.tla instantiated with the computation graph EXPORTED from a real fit of each type (node names, kinds, children, marked/frozen node sets) and a table of what each named property node really reads; TLC checks ReadCorrect/FreshIsClean/NothingPinnedAfterFit/CostNodeSelection over all interleavings of mutators and reads; the histories are replayed on real fits against the oracle the property names (a fresh fit with the same mutators and no reads, asked first)",
        text="TLC decides on the wiring the code actually has whether any history of add/disable/enable source, add constraint, set/fix/limit parameter, replace data, do_fit (modelled as the "
             "freeze/minimise/unfreeze passes the code performs) and reads can serve a cached value that is out of date with respect to a configuration component the node really reads. "
             "Every generated history is executed on real XY/Indexed/Hist/Unbinned fits (both dynamic-error algorithms, both backends); each read is compared with a newly constructed fit that "
             "received the same mutators without any read; after do_fit value-type observables are also compared with a fresh fit SET to the fitted parameters (nothing pinned).",
        note="Trusted: TLC, harness/fitgraph.py (export + meaning table), harness/adapters/fitcache.py, harness/fitlib.py (catalogue of small fits, comparators with sigma-relative post-fit tolerances). "
             "Excluded: singular total covariance (as the property states), data replacement while model-referenced sources exist (known finding)."),
    "C08": dict(
        category="model_checking", design_ref="DESIGN.md 4.4, 5/C08",
        technique="TLA+ spec Minimizer.tla (two copies of the parameter vector, temporary fixes, save/load state, caches; every post-fit query written as the sequence of primitive steps each backend performs) model-checked with TLC; the query sequences are replayed on real fits with a before/after snapshot per query",
        text="TLC checks QueryDoesNotMove, CopiesAgree, NoTemporaryFixLeft and FixedUntouched over all sequences (with repetition) of covariance / asymmetric-error / profile (plain and with confidence-level bounds) / "
             "contour / report-and-save queries on fits with user-fixed and limited parameters, for the iminuit and the scipy adapter. Each generated sequence is executed on a real three-parameter fit: after every query "
             "the parameter values (both the minimizer's and the model's copy), cost, symmetric uncertainties, did_fit and the fixed/limited sets must be unchanged up to the minimizer tolerance, and a repeated question must give the same answer.",
        note="Trusted: TLC, harness/adapters/minimizer.py (thresholds: 0.02 sigma, 1e-3 cost, 5 % uncertainties, 3 % repeated answers). Queries are only issued while no mutator was called since the last do_fit (the scope of the statement). The value classes of the model are abstract (optimum / displaced / conditional optimum)."),
    "C01": dict(
        category="model_checking", design_ref="DESIGN.md 5/C01, 4.3",
        technique="TLA+ spec FitCache.tla generates the histories and the DECLARED configuration of every state (enabled sources, constraints, data set, whether the no-errors or the pointwise cost node may be in use: CostNodeSelection, checked by TLC); an independent numpy/scipy evaluator computes the documented -2 log L from that declaration and is compared with cost_function_value on real fits; plus a sweep over every identifier of the three STRING_TO_COST_FUNCTION tables",
        text="TLC checks on the exported graph that the cost node is never out of date with respect to sources, constraints, parameters and data and that the no-errors / pointwise nodes are read only "
             "when the declared configuration allows it. Every history (sources added in every order incl. a model-referenced source first, disabled/enabled, constraints, parameter points, data replacement, fits) "
             "is executed on real fits of all four types and the reported cost is compared with r^T V^-1 r + log det V + constraint cost (resp. the Poisson / Gaussian / Gaussian-approximation / unbinned likelihoods) "
             "computed from exactly the enabled declared sources. All 60+ cost identifiers are evaluated with several source mixes and constraints.",
        note="Trusted: TLC, harness/evaluator.py (numpy solve/slogdet, scipy.stats), harness/fitlib.py catalogue. Tolerance 1e-6 relative. User-supplied cost callables are not covered. Known finding KF-C01-HIST-MODEL-REL is reported as such."),
    "C10": dict(
        category="model_checking", design_ref="DESIGN.md 5/C10",
        technique="TLA+ spec FitCache.tla carries IdealNdf (exact integer formula) through every history of fix/release/constraint/source/data/fit operations; fit.ndf is compared with it exactly, goodness_of_fit and chi2_probability with the independent evaluator of the documented formulas",
        text="The specification's state holds the number of data points, parameters, fixed parameters and constraint measurements (1 per simple, n per n-parameter matrix constraint); TLC enumerates all orders of fixing, releasing and "
             "constraining; each history is executed on real fits and fit.ndf must equal the specification's integer; goodness of fit must equal cost minus saturated cost and chi2_probability the chi2 upper tail of the cost without its determinant term.",
        note="Trusted: TLC, harness/evaluator.py, scipy.stats.chi2.sf. Multi-fits are covered under C11's check (MultiFit.tla NdfFormula)."),
    "C11": dict(
        category="model_checking", design_ref="DESIGN.md 4.7, 5/C11",
        technique="TLA+ spec MultiFit.tla (overlap patterns of parameter names, shared parameter nodes vs per-object minimizer copies, mirrored fix/release, constraint bookkeeping, block layout of shared sources with the fit-index -> data-index map) model-checked with TLC; histories replayed on real MultiFit objects; cost and fit result compared with the joint -2 log L / GLS solution assembled from the specification's block layout",
        text="TLC checks Mirrored, SymmetricLayout, EverySourceOnItsDiagonal and FixedKeepValue over set/fix/release issued on the multi-fit or on members, constraints on either, shared sources on every subset, for six overlap patterns "
             "(disjoint, fully shared, chain, non-adjacent sharing, mixed with a non-chi2 member, reordered names, two XY members with a shared x uncertainty, single member). Each history is executed on a real MultiFit: one value per name in the multi-fit and all members, ndf = the specification's integer, "
             "cost = sum of member costs without shared sources and = the joint -2 log L with the shared matrix in exactly the blocks the specification lists, the joint covariance matrix itself, after do_fit the optimum = the joint GLS solution and every member reports sub-blocks of the multi-fit result.",
        note="Trusted: TLC, harness/adapters/multifit.py (numpy GLS). Members are 3-point indexed fits with linear models plus one Poisson histogram member; sources absolute and uncorrelated between points. For the XY pattern with a shared x uncertainty the oracle is a new multi-fit brought to the same configuration with the reads deleted (the live object is read after every mutator). Known finding KF-C11-SHARED-MEMBER-CONSTRAINTS is reported as such."),
    "C09": dict(
        category="model_checking", design_ref="DESIGN.md 4.8, 5/C09",
        technique="TLA+ specs FileIO.tla (append-mode handle, truncate, one document per path, read through own / base / other class, second cycle) and ErrorModel.tla / FitCache.tla with a Reload action at every position of their histories, model-checked with TLC; replayed with real files on a catalogue of 22 configured objects, and with the original object kept alive next to the reloaded one for every later step",
        text="TLC checks ExactlyOneDocument / ReadReturnsLastWritten / NeverGarbled for write-write-read-rewrite sequences of different object kinds on one path, and ReadCorrect for container histories in which the object is saved and reloaded at any point. "
             "Replay: each of 22 objects (4 container types incl. manual heights with underflow != overflow, 3 parametric models, 4 constraint forms, 9 fits: fitted or not, fixed/limited/constrained, disabled and model-referenced sources, asymmetric errors) is written, "
             "read back through its own class / family base / a wrong class, written again and read again, comparing a projection of everything the statement lists; containers and fits are reloaded in the middle of ErrorModel / FitCache histories and every later observation "
             "is compared with the exact ideal (containers) or with the original object receiving the same later calls (fits).",
        note="Trusted: TLC, harness/adapters/fileio.py (catalogue, projections; 1e-9 for unfitted objects, 1e-3 for quantities that went through a minimizer), harness/adapters/errormodel.py. Model functions must be self-contained source text (documented form). CustomFit is not covered."),
    "C19": dict(
        category="model_checking", design_ref="DESIGN.md 5/C19",
        technique="rejecting actions of the TLA+ specs Nexus.tla, HistFill.tla, ErrorModel.tla and FitCache.tla with the action property RejectLeavesUnchanged checked by TLC; every history with a malformed call at some position replayed on the real objects (the call must raise; every later observation must equal the prediction as if it had not been made); plus one-shot constructor-level malformed specifications",
        text="Malformed variants are enumerated from the valid call: size off, a negative entry, correlation above 1 or negative, non-unit correlation diagonal, wrong matrix size, unknown axis / source / parameter names, duplicate names, "
             "non-symmetric / wrongly shaped / length-mismatched constraint matrices, wrong-length parameter lists, limits without bounds, Poisson data that is negative or fractional, wrong container type, unsorted bin edges, wrong number of bin heights, "
             "cycle-closing and unknown graph dependencies, assignments to function / alias nodes. TLC proves on the models that a rejected call changes nothing; the replay shows the code raises and that all later reads are unaffected.",
        note="Trusted: TLC and the adapters of C02/C03/C04/C12. Exception types are not compared. Reserved model-parameter names, unknown cost identifiers etc. are constructor-level and checked once each."),
    "C05": dict(
        category="exploration", design_ref="DESIGN.md 4.12, 5/C05",
        technique="TLA+ spec Scenario.tla computes the generalised-least-squares solution, its covariance, chi2 and ndf as EXACT rationals over a grid of two-parameter linear problems (bases, data, weights, fixed parameter = deleted column, constraint = extra row) and TLC checks the GLS identities on it; every grid scenario is fitted for real (both backends, xy and indexed fits, two start points) and compared with the rationals; correlated covariances through random problems with a numpy closed form",
        text="The numbers are a minimizer's, so the claim is exploration: the specification is an exact reference on a grid (928 / 3596 scenarios), not a model of MIGRAD. Values must agree within 0.02 sigma, covariance 2 %, chi2 1e-3, asymmetric = +- symmetric within 3 %. "
             "Multi-fits with shared linear parameters are checked against the joint GLS solution in C11.",
        note="Trusted: TLC integer arithmetic, harness/adapters/scenario.py, numpy for the float extension (well-conditioned, centred polynomial bases)."),
    "C06": dict(
        category="exploration", design_ref="DESIGN.md 5/C06",
        technique="TLA+ spec NlScenario.tla enumerates the admissible nonlinear configurations (5 xy families + Poisson histogram + unbinned; uncertainty mix incl. x and model-relative; nonlinear / iterative; fixed; limited inside / active) and schedules the property's own probes as actions (fit, neighbour probes, cross-backend, refit); Minimizer.tla is model-checked for the fixed/limited bookkeeping; histories replayed on real fits",
        text="Probes: cost at p +- 0.5 sigma along every free parameter (clipped to the limits) on a separate fresh fit must not be lower than the reported minimum by more than 1e-3; the other backend must agree within 0.1 sigma; a second do_fit must not move the optimum by more than 0.05 sigma "
             "(the fixed-point clause, the only optimality clause used with the iterative algorithm); fixed values bit-exact; limits closed. Optimality is probed at finitely many neighbours; nothing proves convergence.",
        note="Trusted: TLC, harness/adapters/nlscenario.py (catalogue with fixed noise realisations). Known finding KF-C06-SCIPY-BOUNDS is reported as such."),
    "C07": dict(
        category="exploration", design_ref="DESIGN.md 4.5, 5/C07",
        technique="TLA+ spec FixedIndex.tla (transcribed index bookkeeping between full and free parameter vectors / matrices, TLC-exhaustive for every fixed subset up to 5 parameters) replayed on both real minimizer adapters; Scenario.tla's exact covariance gives closed forms for symmetric errors, correlation, profiles, cost-rise-1 crossings, 1-sigma contours and the error band on quadratic costs; nonlinear profile points and asymmetric errors are compared with an independent re-minimisation on a separate fit",
        text="Index part: model checking (62 states, all replayed). Numeric part: exploration with thresholds of 2-6 %.",
        note="Trusted: TLC, harness/adapters/fixedindex.py, harness/adapters/scenario.py. errordef 0.5 (nll) is exercised through histogram / unbinned fits in C03, C06, C08 only."),
    "C15": dict(
        category="exploration", design_ref="DESIGN.md 4.12, 5/C15",
        technique="TLA+ spec Scenario.tla: TLC checks PermutationInvariant, ParameterOrderEquivariant and UnitEquivariant on the exact rational GLS solution over the grid (and FixedIndex.tla the bookkeeping for fixed parameters in any position); grid scenarios and their transformed images are fitted for real against the exact numbers; metamorphic pairs of real fits (random point permutation with permuted covariance rows/columns, random parameter order with fixed / limited / constrained subsets, y scaled by 10^k, k in -6..6) on linear, quadratic and exponential models with correlated, relative and x uncertainties, both backends",
        text="Exploration: the laws are proved on the rational reference over the grid and observed on the code for the grid scenarios and for a catalogue of metamorphic cases.",
        note="Trusted: TLC, harness/adapters/metamorphic.py, harness/adapters/scenario.py. Thresholds: optimum 0.03 sigma, uncertainties 4 %, covariance 6 %, chi2/gof 2e-3. Known finding KF-C15-SCIPY-SMALL-UNITS is reported as such."),
}
NOT_APPLICABLE = {
    "C16": "Pure real-valued special-function identity (chi2 CDF and its inverse): no state or transitions, and TLC has neither reals nor exp; "
           "an integer table in a spec would only restate the expected numbers. The discrete part (which derived CL profile/contour pass on) is modelled in Minimizer.tla under C07/C08.",
}
PENDING = "not built yet in this round of work: specification and binding are planned in DESIGN.md but no check is registered, so nothing is claimed"

checks = []
for p in props:
    pid = p["id"]
    if pid in CHECKS:
        c = CHECKS[pid]
        checks.append(dict(
            property_id=pid, quick_cmd="./check %s --tier quick" % pid, thorough_cmd="./check %s --tier thorough" % pid,
            evidence_file="/verif/evidence/%s.json" % pid, replay_cmd_template="./check %s --replay {path}" % pid,
            engine="tlc+replay", technique=c["technique"],
            level_claimed=dict(category=c["category"], text=c["text"], design_ref=c["design_ref"]), level_note=c["note"]))
na = []
for p in props:
    pid = p["id"]
    if pid not in CHECKS:
        na.append(dict(property_id=pid, reason=NOT_APPLICABLE.get(pid, PENDING)))
man = dict(
    version=1, setup_cmd="./setup.sh",
    hooks=dict(guard="KAFE2_VERIF", enable="no source hooks: recorders are wrappers installed at run time by the harness when KAFE2_VERIF=1 (set by ./check)",
               baseline_off_cmd="cd /repo && /venv/bin/python -m pytest -ra -q -p no:cacheprovider --timeout=900 --continue-on-collection-errors",
               source_commits=[], add_only=True),
    engines=[dict(name="tlc+replay", path="/verif/harness", serves_properties=sorted(CHECKS),
                  kind_free_text="TLA+ specifications in /verif/spec checked by TLC; Python harness replays TLC-generated histories into kafe2 and validates recorded traces against the specs")],
    checks=checks, not_applicable=na,
    notes="See DESIGN.md. known_findings.txt lists open and fixed findings. ./check <id> --tier quick|thorough; exit 0 ok, 1 VIOLATION, 2 machinery failure.")
json.dump(man, open(os.path.join(ROOT, "MANIFEST.json"), "w"), indent=1)
import jsonschema
jsonschema.validate(man, json.load(open("/root/.vp/MANIFEST.schema.json")))
print("MANIFEST.json written:", len(checks), "checks,", len(na), "not applicable")
